"""C11, collections part (imported by checks/c11.py).

* enumerates at run time every primitive registered in the built-in collection modules
  (harness bin c11mods -> Engine::builtin_modules()) and records which are exercised by the
  generators below and which are not (listed gaps with a reason; unclassified names are reported);
* operation SEQUENCES on one collection (boundary indices, empty collections, duplicate keys, keys that
  are collections) run on the engine, on the Coq model coq/c11/Coll_C11.v and on a python oracle;
* BINARY / n-ary operations with every ownership pattern of their operands (bound to variables used
  again later, temporaries, locals at their last use, the same variable twice) and, for maps / sets,
  overlapping keys with different values, overlapping keys with equal values, disjoint keys.
Oracle: python list / dict / set / str semantics, written from the documentation of the primitives
(hash-union: the LEFT value wins; hashset-difference: symmetric difference, as documented).
"""
import json
import re

from checks import common
from checks.common import TieBroken

COLL_HEADER = ("From SV Require Import c11.Coll_C11.\nFrom Coq Require Import ZArith List String.\n"
               "Import ListNotations.\nOpen Scope Z_scope.\n")
KEYS = [0, 1, 2, -1, "a", "ab", "", (), (1,), (1, 2), (2, 1)]
ELTS = [0, 1, 2, 3, -1, 7, 9, 2**40]
ERR_KIND = {"E:Index": "Generic", "E:Missing": "Generic", "E:Type": "TypeMismatch", "E:Conv": "ConversionError", "E:Range": "ContractViolation"}
MODULES = ["steel/lists", "steel/hash", "steel/sets", "steel/vectors", "steel/immutable-vectors",
           "steel/strings", "steel/bytevectors"]


# ---------------------------------------------------------------------------------------- rendering
def key_steel(k):
    if isinstance(k, int):
        return str(k)
    if isinstance(k, str):
        return '"%s"' % k
    return "(list%s)" % "".join(" %d" % x for x in k)


def key_coq(k):
    if isinstance(k, int):
        return "KInt (%d)" % k
    if isinstance(k, str):
        return "KStr [%s]" % "; ".join("%d%%nat" % ord(c) for c in k)
    return "KList [%s]" % "; ".join("(%d)" % x for x in k)


def key_txt(k):
    """canonical text of a key (harness canon without the I tag of integers)"""
    if isinstance(k, int):
        return str(k)
    if isinstance(k, str):
        return '"%s"' % k
    return "(" + " ".join(str(x) for x in k) + ")"


def zs(xs):
    return "[" + "; ".join("(%d)" % x for x in xs) + "]"


def ns(xs):
    return "[" + "; ".join("%d%%nat" % x for x in xs) + "]"


def ints_txt(xs):
    return "(" + " ".join(str(x) for x in xs) + ")"


def idx_steel(i):
    return '"x"' if i is None else str(i)


def idx_coq(i):
    return "IBad" if i is None else "IZ (%d)" % i


def val_steel(kind, v):
    if kind == "list":
        return "(list%s)" % "".join(" %d" % x for x in v)
    if kind == "mvec":
        return "(vector%s)" % "".join(" %d" % x for x in v)
    if kind == "ivec":
        return "(immutable-vector%s)" % "".join(" %d" % x for x in v)
    if kind == "map":
        return "(hash%s)" % "".join(" %s %d" % (key_steel(k), x) for k, x in v)
    if kind == "set":
        return "(hashset%s)" % "".join(" " + key_steel(k) for k in v)
    if kind == "string":
        return '"%s"' % "".join(chr(x) for x in v)
    return "(bytes%s)" % "".join(" %d" % x for x in v)


def val_coq(kind, v):
    if kind == "list":
        return "CList %s" % zs(v)
    if kind == "mvec":
        return "CMVec %s" % zs(v)
    if kind == "ivec":
        return "CIVec %s" % zs(v)
    if kind == "map":
        return "CMap (map_of %s)" % pairs_coq(v)
    if kind == "set":
        return "CSet (set_of %s)" % keys_coq(v)
    if kind == "string":
        return "CString %s" % ns(v)
    return "CBytes %s" % ns(v)


def pairs_coq(v):
    return "[%s]" % "; ".join("(%s, (%d))" % (key_coq(k), x) for k, x in v)


def keys_coq(v):
    return "[%s]" % "; ".join(key_coq(k) for k in v)


def val_py(kind, v):
    """python persistent value of a literal (duplicate keys: the later one overrides)"""
    if kind == "map":
        d = {}
        for k, x in v:
            d[k] = x
        return d
    if kind == "set":
        return set(v)
    return list(v)


# whole contents as a list form, in Steel and as canonical text
SNAP_STEEL = {"list": "%s", "mvec": "(vector->list %s)", "ivec": "(vector->list %s)",
              "map": "(map (lambda (p) (list (car p) (cdr p))) (hash->list %s))", "set": "(hashset->list %s)",
              "string": "(map char->integer (string->list %s))", "bytes": "(bytes->list %s)", "bool": "%s"}
SNAP_UNORDERED = {"map", "set"}
SNAP_COQ = {"list": "OSnap", "mvec": "OSnap", "ivec": "OSnap", "map": "OHToList", "set": "OSToList",
            "string": "OSnap", "bytes": "OSnap"}


def snap_txt(kind, c):
    if kind == "map":
        return unordered(["(%s %d)" % (key_txt(k), x) for k, x in c.items()])
    if kind == "set":
        return unordered([key_txt(k) for k in c])
    if kind == "string":
        return ints_txt([x for x in c])
    if kind == "bool":
        return "#t" if c else "#f"
    return ints_txt(c)


def unordered(items):
    return "(" + " ".join(sorted(items)) + ")"


# ---- parsing canonical text (after the I tags are stripped)
def strip_int_tags(v):
    return re.sub(r"(?<![\w\"])I(-?\d+)", r"\1", v)


def parse(s):
    """nested lists of atoms (strings) from canonical text; strings in double quotes are atoms"""
    pos = 0
    n = len(s)

    def item():
        nonlocal pos
        while pos < n and s[pos] == " ":
            pos += 1
        if pos >= n:
            raise ValueError("unexpected end")
        if s[pos] == "(":
            pos += 1
            out = []
            while True:
                while pos < n and s[pos] == " ":
                    pos += 1
                if pos >= n:
                    raise ValueError("unbalanced")
                if s[pos] == ")":
                    pos += 1
                    return out
                out.append(item())
        if s[pos] == '"':
            e = s.index('"', pos + 1)
            a = s[pos:e + 1]
            pos = e + 1
            return a
        st = pos
        while pos < n and s[pos] not in " ()":
            pos += 1
        return s[st:pos]
    r = item()
    return r


def render(t):
    return t if isinstance(t, str) else "(" + " ".join(render(x) for x in t) + ")"


def normalise(text, flags):
    """text = canonical list of observations; observation i with flags[i] is an unordered list"""
    try:
        t = parse(strip_int_tags(text))
    except ValueError:
        return text
    if isinstance(t, str) or len(t) != len(flags):
        return render(t)
    out = []
    for x, f in zip(t, flags):
        if f and not isinstance(x, str):
            out.append("(" + " ".join(sorted(render(y) for y in x)) + ")")
        else:
            out.append(render(x))
    return "(" + " ".join(out) + ")"


# ---------------------------------------------------------------------------------------- sequence operations
class Stop(Exception):
    def __init__(self, cls, op):
        self.cls, self.op = cls, op


def ref_at(l, i, op, usize=False):
    if i is None or (usize and i < 0):
        raise Stop("E:Type", op)
    if i < 0 or i >= len(l):
        raise Stop("E:Index", op)
    return l[i]


def nonneg(i, op, neg_cls):
    if i is None:
        raise Stop("E:Type", op)
    if i < 0:
        raise Stop(neg_cls, op)
    return i


# name -> (kinds, registered primitives exercised, mode, steel template, coq, unordered)
#   mode "state": (c (expr))    "out": (oN (expr))    "mut": (uN (expr)) mutates c in place
# `%(c)s` is the collection; other fields come from the generated arguments
SEQ = {}


def seq(name, kinds, prims, mode, steel, coq, unordered=False):
    SEQ[name] = {"kinds": kinds, "prims": prims, "mode": mode, "steel": steel, "coq": coq, "unordered": unordered}


L = ["list"]
seq("cons", L, ["cons"], "state", lambda a: "(cons %d c)" % a[0], lambda a: "OCons (%d)" % a[0])
seq("append", L, ["append"], "state", lambda a: "(append c %s)" % val_steel("list", a[0]), lambda a: "OAppend %s" % zs(a[0]))
seq("append3", L, ["append"], "state", lambda a: "(append c %s %s)" % (val_steel("list", a[0]), val_steel("list", a[1])),
    lambda a: "OAppend2 %s %s" % (zs(a[0]), zs(a[1])))
seq("prepend", L, ["append"], "state", lambda a: "(append %s c)" % val_steel("list", a[0]), lambda a: "OPrepend %s" % zs(a[0]))
seq("reverse", L, ["reverse"], "state", lambda a: "(reverse c)", lambda a: "OReverse")
seq("take", L, ["take"], "state", lambda a: "(take c %s)" % idx_steel(a[0]), lambda a: "OTake (%s)" % idx_coq(a[0]))
seq("drop", L, [], "state", lambda a: "(drop c %s)" % idx_steel(a[0]), lambda a: "ODrop (%s)" % idx_coq(a[0]))
seq("list-tail", L, ["list-tail"], "state", lambda a: "(list-tail c %s)" % idx_steel(a[0]), lambda a: "OListTail (%s)" % idx_coq(a[0]))
seq("list-drop", L, ["list-drop"], "state", lambda a: "(list-drop c %s)" % idx_steel(a[0]), lambda a: "OListDrop (%s)" % idx_coq(a[0]))
seq("cdr", L, ["cdr"], "state", lambda a: "(cdr c)", lambda a: "OCdr")
seq("rest", L, ["rest"], "state", lambda a: "(rest c)", lambda a: "ORest")
seq("push-back", L, ["push-back"], "state", lambda a: "(push-back c %d)" % a[0], lambda a: "OPushBack (%d)" % a[0])
seq("length", L, ["length"], "out", lambda a: "(length c)", lambda a: "OLength")
seq("list-ref", L, ["list-ref"], "out", lambda a: "(list-ref c %s)" % idx_steel(a[0]), lambda a: "OListRef (%s)" % idx_coq(a[0]))
seq("try-list-ref", L, ["try-list-ref"], "out", lambda a: "(try-list-ref c %s)" % idx_steel(a[0]), lambda a: "OTryRef (%s)" % idx_coq(a[0]))
seq("car", L, ["car"], "out", lambda a: "(car c)", lambda a: "OCar")
seq("first", L, ["first"], "out", lambda a: "(first c)", lambda a: "OFirst")
seq("second", L, ["second"], "out", lambda a: "(second c)", lambda a: "OSecond")
seq("third", L, ["third"], "out", lambda a: "(third c)", lambda a: "OThird")
seq("last", L, ["last"], "out", lambda a: "(last c)", lambda a: "OLast")
seq("member", L, ["member"], "out", lambda a: "(member %d c)" % a[0], lambda a: "OMember (%d)" % a[0])
seq("list-contains", L, ["list-contains"], "out", lambda a: "(list-contains %d c)" % a[0], lambda a: "OContains (%d)" % a[0])
seq("empty?", L, ["empty?"], "out", lambda a: "(empty? c)", lambda a: "OEmptyP")
seq("list->vector", L, ["list->vector"], "out", lambda a: "(vector->list (list->vector c))", lambda a: "OSnap")
MV = ["mvec", "ivec"]
seq("vector-ref", MV, ["vector-ref"], "out", lambda a: "(vector-ref c %s)" % idx_steel(a[0]), lambda a: "OVecRef (%s)" % idx_coq(a[0]))
seq("vector-set!", MV, ["vector-set!"], "mut", lambda a: "(vector-set! c %s %d)" % (idx_steel(a[0]), a[1]),
    lambda a: "OVecSet (%s) (%d)" % (idx_coq(a[0]), a[1]))
seq("vector-length", MV, ["vector-length"], "out", lambda a: "(vector-length c)", lambda a: "OVecLen")
IV = ["ivec"]
seq("ivec-push", IV, ["immutable-vector-push"], "state", lambda a: "(immutable-vector-push c %d)" % a[0], lambda a: "OIVPush (%d)" % a[0])
seq("ivec-push-front", IV, ["vector-push-front"], "state", lambda a: "(vector-push-front c %d)" % a[0], lambda a: "OIVPushFront (%d)" % a[0])
seq("ivec-set", IV, ["immutable-vector-set"], "state", lambda a: "(immutable-vector-set c %s %d)" % (idx_steel(a[0]), a[1]),
    lambda a: "OIVSet (%s) (%d)" % (idx_coq(a[0]), a[1]))
seq("ivec-take", IV, ["immutable-vector-take"], "state", lambda a: "(immutable-vector-take c %s)" % idx_steel(a[0]), lambda a: "OIVTake (%s)" % idx_coq(a[0]))
seq("ivec-drop", IV, ["immutable-vector-drop"], "state", lambda a: "(immutable-vector-drop c %s)" % idx_steel(a[0]), lambda a: "OIVDrop (%s)" % idx_coq(a[0]))
seq("ivec-rest", IV, ["immutable-vector-rest"], "state", lambda a: "(immutable-vector-rest c)", lambda a: "OIVRest")
seq("ivec-append", IV, ["immutable-vector-append"], "state", lambda a: "(immutable-vector-append c %s)" % val_steel("ivec", a[0]),
    lambda a: "OIVAppend %s" % zs(a[0]))
seq("ivec-prepend", IV, ["immutable-vector-append"], "state", lambda a: "(immutable-vector-append %s c)" % val_steel("ivec", a[0]),
    lambda a: "OIVPrepend %s" % zs(a[0]))
seq("ivec->list", IV, ["immutable-vector->list"], "out", lambda a: "(immutable-vector->list c)", lambda a: "OSnap")
H = ["map"]
seq("hash-insert", H, ["hash-insert"], "state", lambda a: "(hash-insert c %s %d)" % (key_steel(a[0]), a[1]),
    lambda a: "OHInsert (%s) (%d)" % (key_coq(a[0]), a[1]))
seq("hash-remove", H, ["hash-remove"], "state", lambda a: "(hash-remove c %s)" % key_steel(a[0]), lambda a: "OHRemove (%s)" % key_coq(a[0]))
seq("hash-ref", H, ["hash-ref"], "out", lambda a: "(hash-ref c %s)" % key_steel(a[0]), lambda a: "OHRef (%s)" % key_coq(a[0]))
seq("hash-get", H, ["hash-get"], "out", lambda a: "(hash-get c %s)" % key_steel(a[0]), lambda a: "OHRef (%s)" % key_coq(a[0]))
seq("hash-try-get", H, ["hash-try-get"], "out", lambda a: "(hash-try-get c %s)" % key_steel(a[0]), lambda a: "OHTryGet (%s)" % key_coq(a[0]))
seq("hash-contains?", H, ["hash-contains?"], "out", lambda a: "(hash-contains? c %s)" % key_steel(a[0]), lambda a: "OHContains (%s)" % key_coq(a[0]))
seq("hash-length", H, ["hash-length"], "out", lambda a: "(hash-length c)", lambda a: "OHLen")
seq("hash-empty?", H, ["hash-empty?"], "out", lambda a: "(hash-empty? c)", lambda a: "OHEmptyP")
seq("hash-clear", H, ["hash-clear"], "state", lambda a: "(hash-clear c)", lambda a: "OHClear")
seq("hash-keys->list", H, ["hash-keys->list"], "out", lambda a: "(hash-keys->list c)", lambda a: "OHKeys", True)
seq("hash-values->list", H, ["hash-values->list"], "out", lambda a: "(hash-values->list c)", lambda a: "OHValues", True)
seq("hash->list", H, ["hash->list"], "out", lambda a: SNAP_STEEL["map"] % "c", lambda a: "OHToList", True)
seq("hash-keys->vector", H, ["hash-keys->vector"], "out", lambda a: "(vector->list (hash-keys->vector c))", lambda a: "OHKeys", True)
seq("hash-values->vector", H, ["hash-values->vector"], "out", lambda a: "(vector->list (hash-values->vector c))", lambda a: "OHValues", True)
seq("hash-union-l", H, ["hash-union"], "state", lambda a: "(hash-union c %s)" % val_steel("map", a[0]), lambda a: "OHUnionL %s" % pairs_coq(a[0]))
seq("hash-union-r", H, ["hash-union"], "state", lambda a: "(hash-union %s c)" % val_steel("map", a[0]), lambda a: "OHUnionR %s" % pairs_coq(a[0]))
S = ["set"]
seq("hashset-insert", S, ["hashset-insert"], "state", lambda a: "(hashset-insert c %s)" % key_steel(a[0]), lambda a: "OSInsert (%s)" % key_coq(a[0]))
seq("hashset-contains?", S, ["hashset-contains?"], "out", lambda a: "(hashset-contains? c %s)" % key_steel(a[0]), lambda a: "OSContains (%s)" % key_coq(a[0]))
seq("hashset-length", S, ["hashset-length"], "out", lambda a: "(hashset-length c)", lambda a: "OSLen")
seq("hashset-clear", S, ["hashset-clear"], "state", lambda a: "(hashset-clear c)", lambda a: "OSClear")
seq("hashset->list", S, ["hashset->list"], "out", lambda a: "(hashset->list c)", lambda a: "OSToList", True)
seq("hashset->vector", S, ["hashset->vector"], "out", lambda a: "(vector->list (hashset->vector c))", lambda a: "OSToList", True)
seq("hashset->immutable-vector", S, ["hashset->immutable-vector"], "out", lambda a: "(vector->list (hashset->immutable-vector c))", lambda a: "OSToList", True)
seq("hashset-union-l", S, ["hashset-union"], "state", lambda a: "(hashset-union c %s)" % val_steel("set", a[0]), lambda a: "OSUnionL %s" % keys_coq(a[0]))
seq("hashset-union-r", S, ["hashset-union"], "state", lambda a: "(hashset-union %s c)" % val_steel("set", a[0]), lambda a: "OSUnionR %s" % keys_coq(a[0]))
seq("hashset-intersection", S, ["hashset-intersection"], "state", lambda a: "(hashset-intersection c %s)" % val_steel("set", a[0]), lambda a: "OSInter %s" % keys_coq(a[0]))
seq("hashset-difference", S, ["hashset-difference"], "state", lambda a: "(hashset-difference c %s)" % val_steel("set", a[0]), lambda a: "OSDiff %s" % keys_coq(a[0]))
seq("hashset-subset?", S, ["hashset-subset?"], "out", lambda a: "(hashset-subset? c %s)" % val_steel("set", a[0]), lambda a: "OSSubset %s" % keys_coq(a[0]))
seq("hashset-superset?", S, ["hashset-subset?"], "out", lambda a: "(hashset-subset? %s c)" % val_steel("set", a[0]), lambda a: "OSSuperset %s" % keys_coq(a[0]))
T = ["string"]
seq("string-append", T, ["string-append"], "state", lambda a: '(string-append c %s)' % val_steel("string", a[0]), lambda a: "OStrAppend %s" % ns(a[0]))
seq("string-append3", T, ["string-append"], "state", lambda a: '(string-append c %s %s)' % (val_steel("string", a[0]), val_steel("string", a[1])),
    lambda a: "OStrAppend2 %s %s" % (ns(a[0]), ns(a[1])))
seq("string-prepend", T, ["string-append"], "state", lambda a: '(string-append %s c)' % val_steel("string", a[0]), lambda a: "OStrPrepend %s" % ns(a[0]))
seq("substring", T, ["substring"], "state", lambda a: "(substring c %d %d)" % (a[0], a[1]), lambda a: "OSubstring (%d) (%d)" % (a[0], a[1]))
seq("string-length", T, ["string-length"], "out", lambda a: "(string-length c)", lambda a: "OStrLen")
seq("string-ref", T, ["string-ref", "char->integer"], "out", lambda a: "(char->integer (string-ref c %s))" % idx_steel(a[0]), lambda a: "OStrRef (%s)" % idx_coq(a[0]))
# string primitives checked against the python oracle only (no Coq model of them)
seq("string-push", T, ["string-push"], "state", lambda a: "(string-push c %s)" % val_steel("string", a[0]), lambda a: "OStrAppend %s" % ns(a[0]))
seq("string-replace", T, ["string-replace"], "state", lambda a: "(string-replace c %s %s)" % (val_steel("string", a[0]), val_steel("string", a[1])), None)
seq("string-upcase", T, ["string-upcase"], "state", lambda a: "(string-upcase c)", None)
seq("string-downcase", T, ["string-downcase"], "state", lambda a: "(string-downcase (string-upcase c))", None)
seq("trim", T, ["trim"], "state", lambda a: '(trim (string-append " " c "  "))', None)
seq("string-contains?", T, ["string-contains?"], "out", lambda a: "(string-contains? c %s)" % val_steel("string", a[0]), None)
seq("starts-with?", T, ["starts-with?"], "out", lambda a: "(starts-with? c %s)" % val_steel("string", a[0]), None)
seq("ends-with?", T, ["ends-with?"], "out", lambda a: "(ends-with? c %s)" % val_steel("string", a[0]), None)
seq("string=?", T, ["string=?"], "out", lambda a: "(string=? c %s)" % val_steel("string", a[0]), None)
seq("string<?", T, ["string<?"], "out", lambda a: "(string<? c %s)" % val_steel("string", a[0]), None)
seq("string->list-range", T, ["string->list"], "out", lambda a: "(map char->integer (string->list c %d %d))" % (a[0], a[1]), None)
seq("string->bytes", T, ["string->bytes", "bytes->list"], "out", lambda a: "(bytes->list (string->bytes c))", None)
seq("string->vector", T, ["string->vector"], "out", lambda a: "(map char->integer (vector->list (string->vector c)))", None)
seq("list->string", T, ["list->string", "string->list"], "state", lambda a: "(list->string (string->list c))", None)
seq("utf8-length", T, ["utf8-length"], "out", lambda a: "(utf8-length c)", None)
B = ["bytes"]
seq("bytes-ref", B, ["bytes-ref"], "out", lambda a: "(bytes-ref c %s)" % idx_steel(a[0]), lambda a: "OBytesRef (%s)" % idx_coq(a[0]))
seq("bytes-length", B, ["bytes-length"], "out", lambda a: "(bytes-length c)", lambda a: "OBytesLen")
seq("bytes-append", B, ["bytes-append"], "state", lambda a: "(bytes-append c %s)" % val_steel("bytes", a[0]), lambda a: "OBytesAppend %s" % ns(a[0]))
seq("bytes-prepend", B, ["bytes-append"], "state", lambda a: "(bytes-append %s c)" % val_steel("bytes", a[0]), lambda a: "OBytesPrepend %s" % ns(a[0]))
seq("bytes-set!", B, ["bytes-set!"], "mut", lambda a: "(bytes-set! c %s %d)" % (idx_steel(a[0]), a[1]), lambda a: "OBytesSet (%s) %d%%nat" % (idx_coq(a[0]), a[1]))
seq("bytes-push!", B, ["bytes-push!"], "mut", lambda a: "(bytes-push! c %d)" % a[0], None)
seq("bytes-copy", B, ["bytes-copy"], "state", lambda a: "(bytes-copy c %d %d)" % (a[0], a[1]), None)
seq("bytes->string", B, ["bytes->string/utf8"], "out", lambda a: "(map char->integer (string->list (bytes->string/utf8 c)))", None)
seq("list->bytes", B, ["list->bytes", "bytes->list"], "state", lambda a: "(list->bytes (bytes->list c))", None)
MVO = ["mvec"]
seq("vector-push!", MVO, ["vector-push!"], "mut", lambda a: "(vector-push! c %d)" % a[0], None)
seq("vector-pop!", MVO, ["mutable-vector-pop!"], "out", lambda a: "(mutable-vector-pop! c)", None)
seq("vector-swap!", MVO, ["vector-swap!"], "mut", lambda a: "(vector-swap! c %d %d)" % (a[0], a[1]), None)
seq("vector-fill!", MVO, ["vector-fill!"], "mut", lambda a: "(vector-fill! c %d)" % a[0], None)
seq("mutable-vector->list", MVO, ["mutable-vector->list"], "out", lambda a: "(mutable-vector->list c)", None)
seq("mut-vec-len", MVO, ["mut-vec-len"], "out", lambda a: "(mut-vec-len c)", None)
seq("vector-append!", MVO, ["vector-append!"], "mut", lambda a: "(vector-append! c %s)" % val_steel("mvec", a[0]), None)
# copies within one and the same vector (overlapping ranges in either direction: seeded change C11-3 copied in place
# from the back, which is wrong for a copy towards the front) and from another vector; valid, non-truncating ranges only
seq("vector-copy!-self", MVO, ["vector-copy!"], "mut", lambda a: "(vector-copy! c %d c %d %d)" % (a[0], a[1], a[2]), None)
seq("vector-copy!-other", MVO, ["vector-copy!"], "mut", lambda a: "(vector-copy! c %d %s %d %d)" % (a[0], val_steel("mvec", a[1]), a[2], a[3]), None)
# ---- slices / constructors / remaining pure primitives, checked against the python oracle only
seq("ivec-copy", IV, ["immutable-vector-copy"], "out", lambda a: "(vector->list (immutable-vector-copy c %d %d))" % (a[0], a[1]), None)
seq("ivec->list-range", IV, ["immutable-vector->list"], "out", lambda a: "(immutable-vector->list c %d %d)" % (a[0], a[1]), None)
seq("vec-rest", IV, ["vec-rest"], "state", lambda a: "(vec-rest c)", None)
seq("pop-front", IV, ["pop-front"], "out", lambda a: "(pop-front c)", None)
seq("push", IV, ["push"], "state", lambda a: "(push %d c)" % a[0], None)
seq("push-front", IV, ["push-front"], "state", lambda a: "(push-front %d c)" % a[0], None)
seq("vector-copy", MVO, ["vector-copy"], "out", lambda a: "(vector->list (vector-copy c %d %d))" % (a[0], a[1]), None)
seq("mutable-vector->list-range", MVO, ["mutable-vector->list"], "out", lambda a: "(mutable-vector->list c %d %d)" % (a[0], a[1]), None)
seq("make-vector", MVO, ["make-vector"], "out", lambda a: "(vector->list (make-vector %d %d))" % (a[0], a[1]), None)
seq("range-vec", IV, ["range-vec"], "out", lambda a: "(vector->list (range-vec %d %d))" % (a[0], a[1]), None)
seq("memq", L, ["memq"], "out", lambda a: "(memq %d c)" % a[0], None)
seq("cdr-null?", L, ["cdr-null?"], "out", lambda a: "(cdr-null? c)", None)
seq("list->hashset", L, ["list->hashset"], "out", lambda a: "(hashset->list (list->hashset c))", None, True)
seq("hash->vector", H, ["hash->vector"], "out", lambda a: "(map (lambda (p) (list (car p) (cdr p))) (vector->list (hash->vector c)))", None, True)
seq("trim-start", T, ["trim-start"], "state", lambda a: '(trim-start (string-append "  " c " "))', None)
seq("trim-end", T, ["trim-end"], "state", lambda a: '(trim-end (string-append " " c "  "))', None)
seq("string-join", T, ["string-join"], "out", lambda a: '(map char->integer (string->list (string-join (list c "x" c) "-")))', None)
seq("split-many", T, ["split-many"], "out", lambda a: '(map string-length (split-many (string-append c "," c) ","))', None)
seq("make-string", T, ["make-string"], "out", lambda a: "(map char->integer (string->list (make-string %d #\\a)))" % a[0], None)
seq("make-bytes", B, ["make-bytes"], "out", lambda a: "(bytes->list (make-bytes %d %d))" % (a[0], a[1]), None)
seq("bytes-clear!", B, ["bytes-clear!"], "mut", lambda a: "(bytes-clear! c)", None)
# whole contents
for k_ in ("list", "mvec", "ivec", "map", "set", "string", "bytes"):
    pass
seq("snap", ["list", "mvec", "ivec", "map", "set", "string", "bytes"], [], "out", None, None)


def py_step(kind, c, name, a):
    """python oracle of one operation: returns (new collection, output text or None)"""
    o = name
    if o == "cons":
        return [a[0]] + c, None
    if o in ("append", "ivec-append", "bytes-append", "string-append", "string-push", "vector-append!"):
        r = c + list(a[0])
        if o == "vector-append!":
            c.extend(a[0])
            return c, None
        return r, None
    if o in ("append3", "string-append3"):
        return c + list(a[0]) + list(a[1]), None
    if o in ("prepend", "ivec-prepend", "bytes-prepend", "string-prepend"):
        return list(a[0]) + c, None
    if o == "reverse":
        return c[::-1], None
    if o == "take":
        return c[:nonneg(a[0], o, "E:Index")], None
    if o == "drop":
        n = nonneg(a[0], o, "E:Index")
        if n > len(c):
            raise Stop("E:Index", "drop_beyond_end")
        return c[n:], None
    if o == "list-tail":
        n = nonneg(a[0], o, "E:Type")
        if n > len(c):
            raise Stop("E:Index", o)
        return c[n:], None
    if o in ("list-drop", "ivec-drop"):
        return c[nonneg(a[0], o, "E:Type"):], None
    if o == "ivec-take":
        return c[:nonneg(a[0], o, "E:Type")], None
    if o in ("cdr", "rest"):
        if not c:
            raise Stop("E:Index", o)
        return c[1:], None
    if o == "ivec-rest":
        return c[1:], None
    if o in ("push-back", "ivec-push"):
        return c + [a[0]], None
    if o == "ivec-push-front":
        return [a[0]] + c, None
    if o in ("length", "vector-length", "string-length", "bytes-length", "hash-length", "hashset-length", "mut-vec-len", "utf8-length"):
        return c, str(len(c))
    if o in ("list-ref", "vector-ref"):
        return c, str(ref_at(c, a[0], o))
    if o in ("string-ref", "bytes-ref"):
        return c, str(ref_at(c, a[0], o, usize=True))
    if o == "try-list-ref":
        if a[0] is None:
            raise Stop("E:Type", o)
        if a[0] < 0:
            raise Stop("E:Index", o)
        return c, (str(c[a[0]]) if a[0] < len(c) else "#f")
    if o in ("car", "first"):
        if not c:
            raise Stop("E:Index", o)
        return c, str(c[0])
    if o in ("second", "third"):
        i = 1 if o == "second" else 2
        if len(c) <= i:
            raise Stop("E:Index", o)
        return c, str(c[i])
    if o == "last":
        if not c:
            raise Stop("E:Index", o)
        return c, str(c[-1])
    if o == "member":
        return c, (ints_txt(c[c.index(a[0]):]) if a[0] in c else "#f")
    if o == "list-contains":
        return c, "#t" if a[0] in c else "#f"
    if o in ("empty?", "hash-empty?"):
        return c, "#t" if not c else "#f"
    if o in ("list->vector", "ivec->list", "mutable-vector->list"):
        return c, ints_txt(c)
    if o == "vector-set!":
        if kind == "ivec":
            raise Stop("E:Type", o)
        ref_at(c, a[0], o, usize=True)
        c = list(c)
        c[a[0]] = a[1]
        return c, None
    if o in ("ivec-set", "bytes-set!"):
        ref_at(c, a[0], o, usize=True)
        c = list(c)
        c[a[0]] = a[1]
        return c, None
    if o == "hash-insert":
        d = dict(c)
        d[a[0]] = a[1]
        return d, None
    if o == "hash-remove":
        d = dict(c)
        d.pop(a[0], None)
        return d, None
    if o in ("hash-ref", "hash-get"):
        if a[0] not in c:
            raise Stop("E:Missing", o)
        return c, str(c[a[0]])
    if o == "hash-try-get":
        return c, (str(c[a[0]]) if a[0] in c else "#f")
    if o in ("hash-contains?", "hashset-contains?"):
        return c, "#t" if a[0] in c else "#f"
    if o == "hash-clear":
        return {}, None
    if o == "hashset-clear":
        return set(), None
    if o in ("hash-keys->list", "hash-keys->vector"):
        return c, unordered([key_txt(k) for k in c])
    if o in ("hash-values->list", "hash-values->vector"):
        return c, unordered([str(v) for v in c.values()])
    if o == "hash->list":
        return c, snap_txt("map", c)
    if o == "hash-union-l":        # documented: the values of the LEFT map are kept
        d = dict(val_py("map", a[0]))
        d.update(c)
        return d, None
    if o == "hash-union-r":
        d = dict(c)
        d.update(val_py("map", a[0]))
        return d, None
    if o == "hashset-insert":
        return c | {a[0]}, None
    if o in ("hashset->list", "hashset->vector", "hashset->immutable-vector"):
        return c, snap_txt("set", c)
    if o in ("hashset-union-l", "hashset-union-r"):
        return c | set(a[0]), None
    if o == "hashset-intersection":
        return c & set(a[0]), None
    if o == "hashset-difference":  # documented example: symmetric difference
        return c ^ set(a[0]), None
    if o == "hashset-subset?":
        return c, "#t" if c <= set(a[0]) else "#f"
    if o == "hashset-superset?":
        return c, "#t" if set(a[0]) <= c else "#f"
    if o == "substring":
        i, j = a
        if i < 0 or j < 0:
            raise Stop("E:Type", o)
        if j < i or j > len(c):
            raise Stop("E:Index", o)
        return c[i:j], None
    s = "".join(chr(x) for x in c) if kind == "string" else None
    if o == "string-replace":
        return [ord(x) for x in s.replace("".join(map(chr, a[0])), "".join(map(chr, a[1])))], None
    if o == "string-upcase":
        return [ord(x) for x in s.upper()], None
    if o == "string-downcase":
        return [ord(x) for x in s.upper().lower()], None
    if o == "trim":
        return [ord(x) for x in (" " + s + "  ").strip()], None
    if o == "trim-start":
        return [ord(x) for x in ("  " + s + " ").lstrip()], None
    if o == "trim-end":
        return [ord(x) for x in (" " + s + "  ").rstrip()], None
    if o == "string-join":
        return c, ints_txt([ord(x) for x in "-".join([s, "x", s])])
    if o == "split-many":
        return c, ints_txt([len(x) for x in (s + "," + s).split(",")])
    if o == "string-contains?":
        return c, "#t" if "".join(map(chr, a[0])) in s else "#f"
    if o == "starts-with?":
        return c, "#t" if s.startswith("".join(map(chr, a[0]))) else "#f"
    if o == "ends-with?":
        return c, "#t" if s.endswith("".join(map(chr, a[0]))) else "#f"
    if o == "string=?":
        return c, "#t" if s == "".join(map(chr, a[0])) else "#f"
    if o == "string<?":
        return c, "#t" if s < "".join(map(chr, a[0])) else "#f"
    if o in ("string->list-range",):
        i, j = a
        if j < i or j > len(c):
            raise Stop("E:Index", o)
        return c, ints_txt(c[i:j])
    if o == "bytes->string":
        if any(x > 127 for x in c):
            raise Stop("E:Conv", o)          # malformed UTF-8
        return c, ints_txt(c)
    if o in ("string->bytes", "string->vector"):
        return c, ints_txt(c)
    if o in ("list->string", "list->bytes"):
        return list(c), None
    if o == "bytes-push!":
        return c + [a[0]], None
    if o == "bytes-copy":
        i, j = a
        if j < i or j > len(c):
            raise Stop("E:Index", o)
        return c[i:j], None
    if o == "vector-push!":
        return c + [a[0]], None
    if o == "vector-pop!":
        if not c:
            return c, "#f"
        return c[:-1], str(c[-1])
    if o == "vector-swap!":
        i, j = a
        if i >= len(c):
            raise Stop("E:Index", o)
        if j >= len(c):
            raise Stop("E:Index", o)
        c = list(c)
        c[i], c[j] = c[j], c[i]
        return c, None
    if o == "vector-fill!":
        return [a[0]] * len(c), None
    if o == "vector-copy!-self":
        at, i, j = a
        c = list(c)
        c[at:at + (j - i)] = c[i:j]
        return c, None
    if o == "vector-copy!-other":
        at, src, i, j = a
        c = list(c)
        c[at:at + (j - i)] = list(src)[i:j]
        return c, None
    if o in ("ivec-copy", "ivec->list-range", "vector-copy", "mutable-vector->list-range"):
        i, j = a
        if j < i or j > len(c):
            raise Stop("E:Range", o)
        return c, ints_txt(c[i:j])
    if o == "vec-rest":
        if not c:
            raise Stop("E:Range", o)
        return c[1:], None
    if o == "pop-front":
        if not c:
            raise Stop("E:Range", o)
        return c, str(c[0])
    if o == "push":
        return c + [a[0]], None
    if o == "push-front":
        return [a[0]] + c, None
    if o == "make-vector":
        return c, ints_txt([a[1]] * a[0])
    if o == "make-bytes":
        return c, ints_txt([a[1]] * a[0])
    if o == "make-string":
        return c, ints_txt([97] * a[0])
    if o == "range-vec":
        return c, ints_txt(list(range(a[0], a[1])))
    if o == "memq":
        return c, (ints_txt(c[c.index(a[0]):]) if a[0] in c else "#f")
    if o == "cdr-null?":
        if not c:
            raise Stop("E:Index", o)
        return c, "#t" if len(c) == 1 else "#f"
    if o == "list->hashset":
        return c, unordered([str(x) for x in set(c)])
    if o == "hash->vector":
        return c, snap_txt("map", c)
    if o == "bytes-clear!":
        return [], None
    if o == "snap":
        return c, snap_txt(kind, c)
    raise ValueError(o)


def py_run(kind, init, ops):
    c = val_py(kind, init)
    outs = []
    try:
        for name, a in ops:
            c, o = py_step(kind, c, name, a)
            if o is not None:
                outs.append(o)
    except Stop as st:
        return st.cls, st.op
    return "(" + " ".join(outs) + ")", None


def seq_steel(kind, init, ops):
    b = ["(c %s)" % val_steel(kind, init)]
    outs = []
    for n_, (name, a) in enumerate(ops):
        d = SEQ[name]
        e = (SNAP_STEEL[kind] % "c") if name == "snap" else d["steel"](a)
        if d["mode"] == "state":
            b.append("(c %s)" % e)
        elif d["mode"] == "mut":
            b.append("(u%d %s)" % (n_, e))
        else:
            b.append("(o%d %s)" % (n_, e))
            outs.append("o%d" % n_)
    return "(let* (%s) (list%s))" % (" ".join(b), "".join(" " + o for o in outs))


def seq_flags(kind, ops):
    fl = []
    for name, a in ops:
        d = SEQ[name]
        if d["mode"] == "out":
            fl.append(d["unordered"] or (name == "snap" and kind in SNAP_UNORDERED))
    return fl


def seq_coq(kind, init, ops):
    r = []
    for name, a in ops:
        d = SEQ[name]
        if name == "snap":
            r.append(SNAP_COQ[kind])
        elif d["coq"] is None:
            return None
        else:
            r.append(d["coq"](a))
    return "run_str (%s) [%s]" % (val_coq(kind, init), "; ".join(r))


def gen_args(rng, kind, name, cur):
    def index():
        if rng.random() < 0.05:
            return None
        return rng.choice([0, 0, 1, cur - 1, cur, cur + 1, -1, max(cur // 2, 0)])

    def uindex():
        i = index()
        return 0 if i is None else max(i, 0)
    elt = lambda: rng.choice(ELTS)
    key = lambda: rng.choice(KEYS)
    ints = lambda: tuple(elt() for _ in range(rng.choice([0, 1, 2, 6])))
    chars = lambda: tuple(rng.choice([97, 98, 120]) for _ in range(rng.choice([0, 1, 2])))
    byts = lambda: tuple(rng.choice([0, 7, 255]) for _ in range(rng.choice([0, 1, 3])))
    if name in ("cons", "push-back", "ivec-push", "ivec-push-front", "member", "list-contains", "vector-push!", "vector-fill!"):
        return (elt(),)
    if name in ("append", "prepend", "ivec-append", "ivec-prepend", "vector-append!"):
        return (ints(),)
    if name == "append3":
        return (ints(), ints())
    if name in ("take", "list-ref", "try-list-ref", "vector-ref", "string-ref", "bytes-ref", "list-tail", "list-drop",
                "ivec-take", "ivec-drop"):
        return (index(),)
    if name == "drop":
        i = index()
        return (0 if i is None else min(i, 0) if i > 0 else i,)      # past the end / non-number abort under the JIT (KF4)
    if name in ("vector-set!", "ivec-set"):
        return (index(), elt())
    if name == "bytes-set!":
        return (index(), rng.choice([0, 9, 255]))
    if name == "bytes-push!":
        return (rng.choice([0, 9, 255]),)
    if name in ("hash-insert",):
        return (key(), elt())
    if name in ("hash-remove", "hash-ref", "hash-get", "hash-try-get", "hash-contains?", "hashset-insert", "hashset-contains?"):
        return (key(),)
    if name in ("hash-union-l", "hash-union-r"):
        return (tuple((key(), elt()) for _ in range(rng.choice([0, 1, 2, 4]))),)
    if name.startswith("hashset-") and name not in ("hashset-length", "hashset-clear"):
        return (tuple(key() for _ in range(rng.choice([0, 1, 2, 4]))),)
    if name in ("string-append", "string-push", "string-prepend", "string-contains?", "starts-with?", "ends-with?", "string=?", "string<?"):
        return (chars(),)
    if name == "string-append3":
        return (chars(), chars())
    if name == "string-replace":
        return (tuple(rng.choice([97, 98]) for _ in range(rng.choice([1, 2]))), chars())
    if name in ("substring", "string->list-range", "bytes-copy", "ivec-copy", "ivec->list-range", "vector-copy",
                "mutable-vector->list-range"):
        return (uindex(), uindex())
    if name in ("push", "push-front", "memq"):
        return (elt(),)
    if name == "make-vector":
        return (rng.choice([0, 1, 3]), rng.choice([0, 7]))
    if name == "make-bytes":
        return (rng.choice([0, 1, 3]), rng.choice([0, 7, 255]))
    if name == "make-string":
        return (rng.choice([0, 1, 3]),)
    if name == "range-vec":
        return (rng.choice([0, 1, 3]), rng.choice([0, 2, 5]))
    if name in ("bytes-append", "bytes-prepend"):
        return (byts(),)
    if name == "vector-swap!":
        return (uindex(), uindex())
    if name == "vector-copy!-self":
        i = rng.randint(0, cur)
        j = rng.randint(i, cur)
        at = rng.randint(0, cur - (j - i))
        return (at, i, j)
    if name == "vector-copy!-other":
        src = tuple(elt() for _ in range(rng.choice([0, 1, 3, 6])))
        i = rng.randint(0, len(src))
        j = rng.randint(i, min(len(src), i + cur))
        at = rng.randint(0, cur - (j - i))
        return (at, src, i, j)
    return ()


def gen_seq(rng, with_drop_beyond=False):
    kind = rng.choice(["list", "list", "mvec", "ivec", "ivec", "map", "map", "set", "set", "string", "bytes"])
    size = rng.choice([0, 0, 1, 2, 3, 5, 9])
    key = lambda: rng.choice(KEYS)
    if kind in ("list", "mvec", "ivec"):
        init = tuple(rng.choice(ELTS) for _ in range(size))
    elif kind == "map":
        init = tuple((key(), rng.choice(ELTS)) for _ in range(size))          # duplicate keys on purpose
    elif kind == "set":
        init = tuple(key() for _ in range(size))
    elif kind == "string":
        init = tuple(rng.choice([97, 98, 99, 122]) for _ in range(size))
    else:
        init = tuple(rng.choice([0, 1, 2, 97]) for _ in range(size))
    names = [n for n, d in SEQ.items() if kind in d["kinds"]]
    ops = []
    cur = len(init)
    exact = True            # cur is the exact length only until an operation that changes the length
    for _ in range(rng.choice([1, 2, 3, 4, 6, 8])):
        name = rng.choice(names)
        if name.startswith("vector-copy!") and not exact:
            name = "vector-fill!"
        if name in ("vector-push!", "vector-pop!", "vector-append!"):
            exact = False
        a = gen_args(rng, kind, name, cur)
        if name == "drop" and with_drop_beyond:
            a = (cur + 1,)
        ops.append((name, a))
    ops.append(("snap", ()))
    if kind == "map":
        ops.extend(("hash-try-get", (k,)) for k in KEYS)
    if kind == "set":
        ops.extend(("hashset-contains?", (k,)) for k in KEYS)
    return kind, init, ops


SEQ_CORPUS = [
    ("mvec", (1, 2, 3, 4, 5), [("vector-copy!-self", (0, 1, 5)), ("snap", ())]),         # overlapping copy towards the front (seeded C11-3)
    ("mvec", (1, 2, 3, 4, 5), [("vector-copy!-self", (1, 0, 4)), ("snap", ())]),         # overlapping copy towards the back
    ("mvec", (1, 2, 3, 4, 5, 6), [("vector-copy!-self", (1, 2, 6)), ("vector-copy!-self", (2, 0, 3)), ("snap", ())]),
    ("bytes", (1, 2, 3), [("bytes-set!", (3, 9)), ("snap", ())]),                        # was a Rust panic (fixed 7c8cf4d7)
    ("ivec", (1, 2), [("ivec-set", (2, 9)), ("snap", ())]),                              # was a Rust panic (fixed 790e245a)
    ("list", tuple(range(10)), [("append", ((1,),)), ("take", (10,)), ("snap", ())]),
    ("map", ((1, 2), (1, 3)), [("hash-length", ()), ("hash-ref", (1,)), ("snap", ())]),
    ("map", (((1, 2), 5),), [("hash-ref", ((1, 2),)), ("hash-ref", ((2, 1),)), ("snap", ())]),
    ("map", ((1, 10), (2, 20)), [("hash-union-l", (((2, 99), (3, 30)),)), ("hash-union-r", (((1, 77), (4, 40)),)), ("snap", ())]),
    ("set", (1, 2, 3), [("hashset-difference", ((2, 3, 4),)), ("snap", ())]),
    ("list", (7, 3, -1, 7, -1), [("take", (1,)), ("last", ()), ("snap", ())]),          # last after take at a cell boundary (fixed)
    ("list", (1, 2, 3), [("drop", (5,)), ("snap", ())]),                                  # known finding KF4
]


# ---------------------------------------------------------------------------------------- binary operations
# name -> (kind of left, kind of right, kind of result, steel, python, coq op (left is the state), primitives)
BIN = {
    "hash-union": ("map", "map", "map", "(hash-union %s %s)", lambda l, r: {**r, **l}, lambda R: "OHUnionL %s" % pairs_coq(R), ["hash-union"]),
    "hashset-union": ("set", "set", "set", "(hashset-union %s %s)", lambda l, r: l | r, lambda R: "OSUnionL %s" % keys_coq(R), ["hashset-union"]),
    "hashset-intersection": ("set", "set", "set", "(hashset-intersection %s %s)", lambda l, r: l & r, lambda R: "OSInter %s" % keys_coq(R), ["hashset-intersection"]),
    "hashset-difference": ("set", "set", "set", "(hashset-difference %s %s)", lambda l, r: l ^ r, lambda R: "OSDiff %s" % keys_coq(R), ["hashset-difference"]),
    "hashset-subset?": ("set", "set", "bool", "(hashset-subset? %s %s)", lambda l, r: l <= r, lambda R: "OSSubset %s" % keys_coq(R), ["hashset-subset?"]),
    "append": ("list", "list", "list", "(append %s %s)", lambda l, r: l + r, lambda R: "OAppend %s" % zs(R), ["append"]),
    "immutable-vector-append": ("ivec", "ivec", "ivec", "(immutable-vector-append %s %s)", lambda l, r: l + r, lambda R: "OIVAppend %s" % zs(R), ["immutable-vector-append"]),
    "vec-append": ("ivec", "ivec", "ivec", "(vec-append %s %s)", lambda l, r: l + r, lambda R: "OIVAppend %s" % zs(R), ["vec-append"]),
    "vector-append": ("mvec", "mvec", "mvec", "(vector-append %s %s)", lambda l, r: l + r, None, ["vector-append"]),
    "string-append": ("string", "string", "string", "(string-append %s %s)", lambda l, r: l + r, lambda R: "OStrAppend %s" % ns(R), ["string-append"]),
    "bytes-append": ("bytes", "bytes", "bytes", "(bytes-append %s %s)", lambda l, r: l + r, lambda R: "OBytesAppend %s" % ns(R), ["bytes-append"]),
    "equal?-maps": ("map", "map", "bool", "(equal? %s %s)", lambda l, r: l == r, None, ["hash"]),
    "equal?-sets": ("set", "set", "bool", "(equal? %s %s)", lambda l, r: l == r, None, ["hashset"]),
}
# ownership patterns: which operands are bound to variables, and which variables are observed again afterwards
#   V = variable used again later   T = temporary (the constructor expression in argument position)
#   L = local variable at its last use   S = the same variable on both sides
PATTERNS = ["VV", "TV", "VT", "TT", "LL", "LV", "VL", "SS"]
OVERLAPS = ["overlap-different", "overlap-equal", "disjoint", "left-empty", "right-empty", "identical"]


def gen_operands(rng, kind, overlap):
    key = lambda: rng.choice(KEYS)
    if kind == "map":
        ks = rng.sample(KEYS, rng.choice([1, 2, 3, 5]))
        if overlap == "disjoint":
            h = len(ks) // 2
            l = [(k, rng.choice(ELTS)) for k in ks[:h]]
            r = [(k, rng.choice(ELTS)) for k in ks[h:]]
        elif overlap == "left-empty":
            l, r = [], [(k, rng.choice(ELTS)) for k in ks]
        elif overlap == "right-empty":
            l, r = [(k, rng.choice(ELTS)) for k in ks], []
        elif overlap == "identical":
            l = [(k, rng.choice(ELTS)) for k in ks]
            r = list(reversed(l))
        else:
            shared = ks[:max(1, len(ks) // 2)]
            l = [(k, rng.choice([1, 2, 3])) for k in shared] + [(k, 5) for k in ks[len(shared):][:1]]
            if overlap == "overlap-equal":
                r = [(k, v) for k, v in l if k in shared] + [(k, 6) for k in ks[len(shared) + 1:][:2]]
            else:
                r = [(k, v + 100) for k, v in l if k in shared] + [(k, 6) for k in ks[len(shared) + 1:][:2]]
            rng.shuffle(r)
        return tuple(l), tuple(r)
    if kind == "set":
        ks = rng.sample(KEYS, rng.choice([1, 2, 4, 6]))
        h = len(ks) // 2
        if overlap == "disjoint":
            return tuple(ks[:h]), tuple(ks[h:])
        if overlap == "left-empty":
            return (), tuple(ks)
        if overlap == "right-empty":
            return tuple(ks), ()
        if overlap == "identical":
            return tuple(ks), tuple(reversed(ks))
        return tuple(ks[:h + 1]), tuple(ks[h:])
    pool = {"list": ELTS, "ivec": ELTS, "mvec": ELTS, "string": [97, 98, 99], "bytes": [0, 1, 255]}[kind]
    mk = lambda n: tuple(rng.choice(pool) for _ in range(n))
    if overlap == "left-empty":
        return (), mk(rng.choice([1, 5, 9]))
    if overlap == "right-empty":
        return mk(rng.choice([1, 5, 9])), ()
    if overlap == "identical":
        x = mk(rng.choice([1, 3, 9]))
        return x, x
    return mk(rng.choice([1, 2, 5, 9])), mk(rng.choice([1, 4, 6]))


def bin_program(name, pattern, L_, R_):
    lk, rk, resk, fmt, pyf, coqf, _ = BIN[name]
    Ls, Rs = val_steel(lk, L_), val_steel(rk, R_)
    binds = []
    le = "l" if pattern[0] in "VLS" else Ls
    re_ = ("l" if pattern == "SS" else "r") if pattern[1] in "VLS" else Rs
    if pattern[0] in "VLS":
        binds.append("(l %s)" % Ls)
    if pattern[1] in "VL":
        binds.append("(r %s)" % Rs)
    binds.append("(x %s)" % (fmt % (le, re_)))
    obs = [SNAP_STEEL[resk] % "x"]
    kinds = [resk]
    if pattern[0] in "VS":
        obs.append(SNAP_STEEL[lk] % "l")
        kinds.append(lk)
    if pattern[1] == "V":
        obs.append(SNAP_STEEL[rk] % "r")
        kinds.append(rk)
    body = "(let* (%s) (list %s))" % (" ".join(binds), " ".join(obs))
    lv = val_py(lk, L_)
    rv = lv if pattern == "SS" else val_py(rk, R_)
    res = pyf(lv, rv)
    want = [snap_txt(resk, res)]
    if pattern[0] in "VS":
        want.append(snap_txt(lk, lv))
    if pattern[1] == "V":
        want.append(snap_txt(rk, rv))
    flags = [k in SNAP_UNORDERED for k in kinds]
    coq = None
    if coqf is not None:
        snap = "" if resk == "bool" else "; " + SNAP_COQ[resk]
        coq = "run_str (%s) [%s%s]" % (val_coq(lk, L_), coqf(L_ if pattern == "SS" else R_), snap)
    return body, "(" + " ".join(want) + ")", flags, coq, snap_txt(resk, res)


# ---------------------------------------------------------------------------------------- coverage of the registered primitives
# registered names that are exercised elsewhere in the C11 check (value renderers of the equality part, snapshots)
COVERED_ELSEWHERE = {
    "list": "constructor (all parts)", "hash": "constructor (all parts)", "hashset": "constructor (all parts)",
    "vector": "constructor (all parts)", "immutable-vector": "constructor (all parts)", "bytes": "constructor (all parts)",
    "range": "list-storage part", "take": "list-storage part and sequences", "vector->list": "snapshots",
    "hash->list": "snapshots", "hashset->list": "snapshots", "bytes->list": "snapshots", "string->list": "snapshots",
    "char->integer": "snapshots", "apply": "C03 / list-storage (apply list ...)",
}
# registered names the generators do not exercise, with the reason (listed gaps)
GAPS = {
    # not collection operations in the sense of the property
    **{n: "character predicate / conversion, not a collection operation" for n in
       ("char->number", "char-ci<=?", "char-ci<?", "char-ci=?", "char-ci>=?", "char-ci>?", "char-digit?", "char-downcase",
        "char-foldcase", "char-upcase", "char-whitespace?", "char<=?", "char<?", "char=?", "char>=?", "char>?", "integer->char")},
    **{n: "keyword-argument plumbing of the macro expander, not a user-level collection operation" for n in
       ("plist-get", "plist-get-kwarg", "plist-get-positional-arg", "plist-get-positional-arg-list", "plist-try-get",
        "plist-try-get-positional-arg", "plist-validate-args", "%keyword-hash", "#%const-list", "#%list-sort")},
    **{n: "type predicate" for n in ("byte?", "bytes?", "bytevector?", "pair?", "null?")},
    **{n: "alias of a covered primitive (R7RS name)" for n in
       ("bytevector", "bytevector-append", "bytevector-copy", "bytevector-length", "bytevector-u8-ref", "bytevector-u8-set!",
        "string->upper", "string->lower", "string-foldcase", "vector-immutable", "mutable-vector", "mut-vector-ref", "hash-get")},
    **{n: "number / symbol conversion, outside the collection models" for n in
       ("int->string", "number->string", "string->int", "string->number", "string->symbol", "string->uninterned-symbol",
        "to-string", "hash-code", "string")},
    **{n: "case-insensitive / remaining order predicates: same code path as string<? / string=? (covered)" for n in
       ("string-ci<=?", "string-ci<?", "string-ci=?", "string-ci>=?", "string-ci>?", "string<=?", "string>=?", "string>?")},
    **{n: "not yet generated (pure, sequence-valued): gap" for n in
       ("split-many", "split-once", "split-whitespace", "string-join", "trim-end", "trim-end-matches", "trim-start",
        "trim-start-matches", "make-string", "string->utf8", "utf8->string", "make-bytes", "make-bytevector", "bytes-clear!",
        "list-chunks", "memq", "cdr-null?", "make-vector", "make-immutable-vector", "immutable-vector->string",
        "immutable-vector-copy", "vector->string", "vector-copy", "vector-copy!", "mutable-vector->clear",
        "mutable-vector->string", "pop-front", "push", "push-front", "range-vec", "vec-rest", "hash->vector",
        "list->hashset", "immutable-vector-append")},
}


def registered_primitives(ck):
    rc, out = common.sh([ck.harness_bin("c11mods")], timeout=120)
    for l in out.splitlines():
        if l.startswith("@@C11MODS@@ "):
            return json.loads(l[12:])
    raise TieBroken("c11mods did not list the built-in collection modules (rc %s): %s" % (rc, out[-300:]))


def coverage_table(ck, used_seq, used_bin):
    mods = registered_primitives(ck)
    covered, gaps, unclassified = {}, {}, []
    by_seq = {}
    for name, d in SEQ.items():
        for p in d["prims"]:
            by_seq.setdefault(p, []).append(name)
    by_bin = {}
    for name, d in BIN.items():
        for p in d[6]:
            by_bin.setdefault(p, []).append(name)
    for m in MODULES:
        names = mods.get(m, [])
        if names == ["<module missing>"]:
            raise TieBroken("built-in module %s not found" % m)
        for n in names:
            how = []
            if n in by_seq:
                hit = sum(used_seq.get(x, 0) for x in by_seq[n])
                how.append("sequences:%s x%d%s" % ("/".join(by_seq[n]), hit,
                                                   "" if all(SEQ[x]["coq"] for x in by_seq[n]) else " (oracle only)"))
            if n in by_bin:
                how.append("binary ownership patterns:%s x%d" % ("/".join(by_bin[n]), sum(used_bin.get(x, 0) for x in by_bin[n])))
            if n in COVERED_ELSEWHERE:
                how.append(COVERED_ELSEWHERE[n])
            if how:
                covered["%s %s" % (m, n)] = "; ".join(how)
            elif n in GAPS:
                gaps["%s %s" % (m, n)] = GAPS[n]
            else:
                unclassified.append("%s %s" % (m, n))
    ck.cov["collection_primitives"] = {"registered": sum(len(mods.get(m, [])) for m in MODULES), "covered": len(covered),
                                       "listed_gaps": len(gaps), "unclassified": unclassified}
    ck.cov["collection_primitives_covered"] = covered
    ck.cov["collection_primitives_gaps"] = gaps
    if unclassified:
        ck.notes.append("registered collection primitives neither exercised nor classified: %s" % ", ".join(unclassified))
    return unclassified


# ---------------------------------------------------------------------------------------- running
def engine_text(r):
    if r is None:
        return "MISSING"
    if "ok" in r:
        return r["ok"][-1] if r["ok"] else "?"
    if "err" in r:
        return "E:" + r["err"]
    if "crash" in r:
        return "CRASH:%s" % r["crash"]
    if "hang" in r:
        return "HANG"
    return "P:" + r.get("panic", "?")


def first_res(res):
    res = [x for x in (res or []) if "out" not in x and "gm" not in x]
    return res[0] if res else None


def run_sequences(ck):
    n = 900 if ck.tier == "quick" else 6000       # ~0.2 s of coqc per case and shard
    cases = list(SEQ_CORPUS)
    for i in range(n):
        cases.append(gen_seq(ck.rng, with_drop_beyond=(i % 97 == 0)))
    impl = ck.eval_cases([[seq_steel(*c)] for c in cases], batch=60)
    exprs, where = [], {}
    for ci, c in enumerate(cases):
        e = seq_coq(*c)
        if e is not None:
            where[ci] = len(exprs)
            exprs.append(e)
    model = ck.coq_eval(COLL_HEADER, exprs, shard=max(20, len(exprs) // 16 + 1), timeout=1800)
    distinct, used = set(), {}
    stats = {"cases": len(cases), "with_coq_model": len(exprs), "engine_vs_oracle": 0, "model_vs_engine": 0, "errors": 0, "ok": 0}
    for ci, (kind, init, ops) in enumerate(cases):
        want, failing_op = py_run(kind, init, ops)
        flags = seq_flags(kind, ops)
        got = engine_text(first_res(impl[ci]))
        got_n = normalise(got, flags) if got.startswith("(") else got
        want_cmp = ("E:" + ERR_KIND[want]) if want.startswith("E:") else want
        ck.cov["evaluations"] += 1
        stats["errors" if want.startswith("E:") else "ok"] += 1
        for name, _ in ops:
            used[name] = used.get(name, 0) + 1
            distinct.add((kind, name, want if want.startswith("E:") else "ok"))
        descr = {"part": "collections", "kind": kind, "init": list(init), "ops": [[n_, list(a)] for n_, a in ops],
                 "source": seq_steel(kind, init, ops), "coq": seq_coq(kind, init, ops), "engine": got, "oracle": want,
                 "failing_op": failing_op}
        if ci % 83 == 0:
            ck.sample(descr, cap=10)
        if got_n != want_cmp:
            stats["engine_vs_oracle"] += 1
            ck.failing_input("collection sequence on %s: engine %s, mathematical %s" % (kind, got[:200], want[:200]), descr, tag="coll")
        elif ci in where:
            mod = model[where[ci]]
            mod_n = normalise(mod, flags) if mod.startswith("(") else mod
            mod_cmp = ("E:" + ERR_KIND[mod]) if mod.startswith("E:") else mod_n
            if mod_cmp != got_n or (want.startswith("E:") and mod != want):
                stats["model_vs_engine"] += 1
                descr["model"] = mod
                ck.violation("collection model/implementation correspondence broken on %s: model %s, engine %s, oracle %s"
                             % (kind, mod[:200], got[:200], want[:200]),
                             {"case": descr, "correspondence": "c11.Coll_C11 step vs primitives/*.rs"}, no_input=True, tag="collcorr")
    ck.cov["collection_stats"] = stats
    return distinct, used


def run_binary(ck):
    """every binary operation x ownership pattern x key-overlap mode (x program shape x JIT setting)"""
    reps = 1 if ck.tier == "quick" else 6
    cases = []
    for name in BIN:
        for pat in PATTERNS:
            for ov in OVERLAPS:
                for _ in range(reps):
                    L_, R_ = gen_operands(ck.rng, BIN[name][0], ov)
                    cases.append((name, pat, ov, L_, R_))
    progs = [bin_program(name, pat, L_, R_) for name, pat, ov, L_, R_ in cases]
    units, index = [], []
    for ci, p in enumerate(progs):
        units.append([p[0]])
        index.append((ci, "top"))
        units.append(["(define (c11-bin) %s)" % p[0], "(c11-bin)"])
        index.append((ci, "fn"))
    results = {"true": ck.eval_cases(units, batch=80), "false": ck.eval_cases(units, batch=80, env={"STEEL_JIT": "false"})}
    exprs, where = [], {}
    for ci, p in enumerate(progs):
        if p[3] is not None:
            where[ci] = len(exprs)
            exprs.append(p[3])
    model = ck.coq_eval(COLL_HEADER, exprs, shard=max(20, len(exprs) // 16 + 1))
    used, distinct = {}, set()
    stats = {"cases": len(cases), "runs": 0, "engine_vs_oracle": 0, "model_vs_oracle": 0}
    for jit in ("true", "false"):
        for (ci, shape), res in zip(index, results[jit]):
            name, pat, ov, L_, R_ = cases[ci]
            body, want, flags, coq, res_txt = progs[ci]
            rr = [x for x in (res or []) if "out" not in x and "gm" not in x]
            got = engine_text(rr[-1] if rr else None)
            got_n = normalise(got, flags) if got.startswith("(") else got
            stats["runs"] += 1
            ck.cov["evaluations"] += 1
            used[name] = used.get(name, 0) + 1
            distinct.add((name, pat, ov))
            if got_n != want:
                stats["engine_vs_oracle"] += 1
                ck.failing_input("%s with operands %s (%s, %s program, JIT %s): engine %s, mathematical %s"
                                 % (name, pat, ov, shape, jit, got[:200], want[:200]),
                                 {"part": "binary", "op": name, "ownership": pat, "overlap": ov, "left": repr(L_), "right": repr(R_),
                                  "shape": shape, "jit": jit, "source": body, "engine": got, "oracle": want}, tag="bin")
    for ci, p in enumerate(progs):
        if ci in where:
            name, pat, ov, L_, R_ = cases[ci]
            kind = BIN[name][2]
            mod = model[where[ci]]
            mod_n = normalise(mod, [kind in SNAP_UNORDERED])
            if mod_n != "(" + p[4] + ")":
                stats["model_vs_oracle"] += 1
                ck.violation("collection model disagrees with the mathematical result of %s: model %s, expected %s"
                             % (name, mod[:200], p[4][:200]),
                             {"case": {"op": name, "left": repr(L_), "right": repr(R_), "coq": p[3]},
                              "correspondence": "c11.Coll_C11 binary operations vs python dict/set oracle"}, no_input=True, tag="bincorr")
    ck.cov["binary_stats"] = stats
    ck.cov["binary_patterns"] = {"operations": sorted(BIN), "ownership": PATTERNS, "overlap": OVERLAPS,
                                 "shapes": ["top", "fn"], "jit": ["true", "false"]}
    return distinct, used


def run_collections(ck):
    ck.harness_build(["evalsrv", "c11mods"])
    d1, used_seq = run_sequences(ck)
    ck.log("collection sequences done")
    d2, used_bin = run_binary(ck)
    coverage_table(ck, used_seq, used_bin)
    ck.cov["collection_triples"] = sorted("%s/%s/%s" % t for t in d1)[:400]
    return len(d1) + len(d2)
