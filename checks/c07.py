"""C07 — no input can crash the host; errors are returned and leave the engine usable (DESIGN.md section 4, C07).

(P) coq/c07: error-recovery state machine of SteelThread::execute / call_with_instructions_and_reset_state,
    symbol-map roll-back, range checks of the indexed primitives.
(C) three searches on the real engine, all in worker subprocesses (crash / abort / hang are observables):
    (a) source-text fuzz -> Engine::compile_and_run_raw_program must return Ok|Err;
    (b) built-in sweep: every function of every registered built-in module (enumerated at run time by
        `c07 --list`) minus DENY, called over a value-kind x boundary-magnitude grid, JIT off in-process with the
        panic hook, plus a JIT-on sweep of numeric/type predicates inside compiled lambdas;
    (c) histories interleaving failing and succeeding units followed by a probe of every earlier definition;
        oracle = python reference of what each successful unit defined (`History`), mirrored by the Coq model's
        `failed_unit_no_effect`.
"""
import json
import os
import re
import select
import subprocess
import threading
import time

from checks import common
from checks.common import TieBroken

# --------------------------------------------------------------------------------------------------
# worker pool with per-case stall detection and an address-space limit
# --------------------------------------------------------------------------------------------------
MARK = "\n@@VERIF@@ "


def run_cases(ck, cases, binary="c07", prelude="", env=None, fresh=True, batch=40, stall=25, mem_gb=2,
              stack_kb=None, nproc=None, max_bad_per_case=6, retry=True):
    """cases: list of lists of source units.  Returns per case a list of per-unit outcomes.  The worker reports
    after every unit, so a worker that dies / stalls loses exactly the unit it was executing:
    {"crash": rc, "stderr": tail} / {"hang": seconds}; a new worker continues with the next unit of that case
    (on a fresh engine).  After `max_bad_per_case` such losses the rest of the case is {"skipped": 1}."""
    pre = os.path.join(ck.work, "prelude_%s_%d_%d.scm" % (binary, os.getpid(), id(cases)))
    with open(pre, "w") as f:
        f.write(prelude)
    results = [[None] * len(c) for c in cases]
    chunks = [list(range(i, min(i + batch, len(cases)))) for i in range(0, len(cases), batch)]
    lock = threading.Lock()
    e = dict(os.environ)
    e["RUST_BACKTRACE"] = "0"
    if env:
        e.update(env)
    seq = [0]
    mark = MARK.encode()

    def limits():
        import resource
        resource.setrlimit(resource.RLIMIT_AS, (mem_gb << 30, mem_gb << 30))
        resource.setrlimit(resource.RLIMIT_CORE, (0, 0))
        if stack_kb:
            resource.setrlimit(resource.RLIMIT_STACK, (stack_kb << 10, stack_kb << 10))

    def work():
        while True:
            with lock:
                if not chunks:
                    return
                ids = chunks.pop(0)
                seq[0] += 1
                n = seq[0]
            start_from = 0          # first unit of ids[0] still to run
            bad = {}
            while ids:
                inp = os.path.join(ck.work, "in_%s_%d_%d.jsonl" % (binary, os.getpid(), n))
                with open(inp, "w") as f:
                    for j, i in enumerate(ids):
                        f.write(json.dumps({"id": i, "units": cases[i], "fresh": fresh, "from": start_from if j == 0 else 0}) + "\n")
                errp = os.path.join(ck.work, "err_%s_%d_%d.txt" % (binary, os.getpid(), n))
                with open(inp) as fin, open(errp, "w") as ferr:
                    p = subprocess.Popen([ck.harness_bin(binary), "--prelude", pre], stdin=fin, stdout=subprocess.PIPE,
                                         stderr=ferr, env=e, preexec_fn=limits)
                fd = p.stdout.fileno()
                buf = b""
                cur = 0                 # index in ids of the case in progress
                nxt = start_from        # next unit expected of that case
                last = time.time()
                hung = False
                while True:
                    r, _, _ = select.select([fd], [], [], 1.0)
                    if r:
                        chunk = os.read(fd, 1 << 16)
                        if not chunk:
                            break
                        buf += chunk
                        while True:
                            k = buf.find(mark)
                            if k < 0:
                                if len(buf) > 64:
                                    buf = buf[-16:]     # script output is dropped; keep a possible partial marker
                                break
                            nl = buf.find(b"\n", k + len(mark))
                            if nl < 0:
                                buf = buf[k:]
                                break
                            rec = buf[k + len(mark):nl]
                            buf = buf[nl:]
                            try:
                                rj = json.loads(rec.decode("utf-8", "replace"))
                            except Exception:
                                continue
                            last = time.time()
                            if rj.get("done"):
                                cur += 1
                                nxt = 0
                            else:
                                results[rj["id"]][rj["k"]] = rj["r"]
                                nxt = rj["k"] + 1
                    if time.time() - last > stall:
                        hung = True
                        p.kill()
                        break
                p.stdout.close()
                rc = p.wait()
                if cur < len(ids):
                    i = ids[cur]
                    if nxt < len(cases[i]):
                        if hung:
                            results[i][nxt] = {"hang": stall}
                        else:
                            try:
                                tail = open(errp, errors="replace").read()[-300:]
                            except Exception:
                                tail = ""
                            results[i][nxt] = {"crash": rc, "stderr": tail.strip()}
                        bad[i] = bad.get(i, 0) + 1
                        nxt += 1
                    if bad.get(i, 0) >= max_bad_per_case:
                        for k2 in range(nxt, len(cases[i])):
                            results[i][k2] = {"skipped": 1}
                        nxt = len(cases[i])
                    if nxt >= len(cases[i]):
                        ids = ids[cur + 1:]
                        start_from = 0
                    else:
                        ids = ids[cur:]
                        start_from = nxt
                else:
                    ids = []

    ts = [threading.Thread(target=work) for _ in range(nproc or common.NPROC)]
    for t in ts:
        t.start()
    for t in ts:
        t.join()
    try:
        os.unlink(pre)
    except OSError:
        pass
    # a case whose units never reported (worker lost under load): run it once more on its own
    lost = [i for i, r in enumerate(results) if any(x is None for x in r)]
    if lost and retry:
        ck.log("run_cases: %d case(s) with unreported units, re-running them" % len(lost))
        again = run_cases(ck, [cases[i] for i in lost], binary=binary, prelude=prelude, env=env, fresh=True, batch=1, stall=stall,
                          mem_gb=mem_gb, stack_kb=stack_kb, nproc=4, max_bad_per_case=max_bad_per_case, retry=False)
        for i, r2 in zip(lost, again):
            results[i] = [a if a is not None else b for a, b in zip(results[i], r2)]
    return results


def kind_of_outcome(r):
    if r is None or "missing" in r:
        return "missing"
    for k in ("ok", "err", "panic", "crash", "hang", "skipped", "nonterminating-program"):
        if k in r:
            return k
    return "other"


def site_of(panic_msg):
    """'msg @ /path/file.rs:123' -> ('file.rs', normalised message): line numbers and digits are not part of the class."""
    msg, _, loc = panic_msg.rpartition(" @ ")
    f = os.path.basename(loc.rsplit(":", 1)[0]) if loc else "?"
    m = re.sub(r"\d+", "N", msg)[:80]
    return f, m


# --------------------------------------------------------------------------------------------------
# (b) built-in sweep
# --------------------------------------------------------------------------------------------------
DENY_MODULES = {
    "steel/filesystem": "file system I/O",
    "steel/process": "spawns / controls OS processes",
    "steel/tcp": "network I/O",
    "steel/http": "network I/O",
    "steel/git": "runs git / network",
    "steel/ffi": "FFI (dylib loading)",
    "steel/polling": "OS poller (blocking waits)",
}
DENY_NAMES = {
    "load": "reads files", "load-expanded": "reads files", "load-from-module!": "reads files",
    "open-input-file": "file I/O", "open-output-file": "file I/O", "read-to-string": "file I/O",
    "#%build-dylib": "FFI / runs cargo", "#%get-dylib": "FFI",
    "time/sleep-ms": "sleeps",
    "spawn-native-thread": "threads", "thread-join!": "threads (blocks)", "thread-suspend": "threads",
    "thread-resume": "threads", "thread-interrupt": "threads", "lock-acquire!": "blocks", "lock-release!": "threads",
    "channel/recv": "blocks", "channel/try-recv": "threads", "channel/send": "threads",
    "block-on": "blocks on futures", "local-executor/block-on": "blocks on futures", "join!": "futures",
    "futures-join-all": "futures", "poll!": "futures", "will-execute": "blocks until a will is ready",
    "breakpoint!": "debugger (reads stdin)", "read!": "reads stdin",
    "Engine::new": "creates engines", "Engine::clone": "creates engines", "Engine::add-module": "engine handle",
    "Engine::modules->list": "engine handle", "Engine::raise_error": "engine handle", "run!": "engine handle",
    "set-env-var!": "process environment", "debug-globals": "dumps every global to stdout",
    "stdin": "hands out the harness's protocol stream", "#%default-input-port": "hands out the harness's protocol stream",
    "command-line": "process", "std::env::args": "process",
    "emit-expanded": "reads a file", "#%path->source-id": "file path",
}
DENY_PREFIX = {"#%verif-": "verification hook (cfg steel_verif), not part of the engine"}

I63 = 2 ** 63
# value pool: (kind, magnitude class, source expression)
POOL = [
    ("int", "zero", "0"), ("int", "small", "1"), ("int", "small", "-1"), ("int", "small", "2"), ("int", "small", "7"),
    ("int", "byte", "255"), ("int", "byte", "256"), ("int", "small", "-129"), ("int", "u16", "65535"), ("int", "u16", "65536"),
    ("int", "i32", "2147483647"), ("int", "i32", "2147483648"), ("int", "i32", "-2147483648"), ("int", "i32", "-2147483649"),
    ("int", "u32", "4294967295"), ("int", "u32", "4294967296"), ("int", "char", "1114111"), ("int", "char", "55296"), ("int", "char", "1114112"),
    ("int", "i64", str(I63 - 1)), ("int", "i64", str(I63 - 2)), ("int", "i64", str(-I63)), ("int", "i64", str(-I63 + 1)),
    ("big", "i64", str(I63)), ("big", "i64", str(-I63 - 1)), ("big", "u64", str(2 ** 64)), ("big", "u64", str(2 ** 64 - 1)),
    ("big", "huge", str(10 ** 40)), ("big", "huge", str(-10 ** 40)), ("big", "huge", "(expt 7 300)"),
    ("rat", "small", "1/2"), ("rat", "small", "-7/3"), ("rat", "i32", "2147483647/2"), ("rat", "i32", "-2147483647/3"),
    ("rat", "i32", "1/2147483647"), ("bigrat", "i32", "1/2147483648"), ("bigrat", "i32", "-2147483648/3"),
    ("bigrat", "i64", "%d/2" % (I63 - 1)), ("bigrat", "huge", "%d/7" % (10 ** 30)),
    ("float", "zero", "0.0"), ("float", "zero", "-0.0"), ("float", "small", "1.5"), ("float", "small", "-1.5"), ("float", "small", "3.0"),
    ("float", "huge", "1e308"), ("float", "huge", "-1e308"), ("float", "tiny", "5e-324"), ("float", "i64", "9223372036854775808.0"),
    ("float", "i64", "1e19"), ("float", "i32", "2147483648.0"), ("float", "inf", "+inf.0"), ("float", "inf", "-inf.0"), ("float", "nan", "+nan.0"),
    ("complex", "small", "(make-rectangular 1 2)"), ("complex", "inf", "(make-rectangular +inf.0 +nan.0)"), ("complex", "small", "(make-rectangular 1/2 0.5)"),
    ("string", "empty", '""'), ("string", "small", '"a"'), ("string", "small", '"abc"'), ("string", "small", '"hello world"'),
    ("string", "unicode", '"héllo wörld λ \U0001F600"'), ("string", "numeric", '"12"'), ("string", "numeric", '"-1/2"'), ("string", "syntax", '"(1 2"'),
    ("string", "huge", "(make-string 70000 #\\a)"),
    ("char", "small", "#\\a"), ("char", "zero", "#\\null"), ("char", "unicode", "#\\λ"), ("char", "small", "#\\space"), ("char", "small", "#\\0"),
    ("symbol", "small", "'sym"), ("symbol", "empty", '(string->symbol "")'), ("symbol", "small", "'+"),
    ("keyword", "small", "'#:key"),
    ("bool", "small", "#t"), ("bool", "small", "#f"),
    ("void", "small", "void"),
    ("list", "empty", "'()"), ("list", "small", "'(1 2 3)"), ("list", "small", "(list 1 \"a\" 'b)"), ("list", "nested", "(list (list 1 2) (list 3 4))"),
    ("list", "assoc", "'((a . 1) (b . 2))"), ("list", "strings", '(list "a" "b" "c")'), ("list", "chars", "(list #\\a #\\b)"),
    ("list", "huge", "(range 0 5000)"), ("list", "single", "(list -1)"), ("list", "pairs", "(list (list 1 2) 3)"),
    ("pair", "small", "'(1 . 2)"), ("pair", "improper", "'(1 2 . 3)"),
    ("mvec", "empty", "(vector)"), ("mvec", "small", "(vector 1 2 3)"), ("mvec", "huge", "(make-vector 5000 0)"), ("mvec", "mixed", "(vector \"a\" 'b 1.5)"),
    ("ivec", "empty", "(immutable-vector)"), ("ivec", "small", "#(1 2 3)"), ("ivec", "small", "(immutable-vector 1 \"a\")"),
    ("hash", "empty", "(hash)"), ("hash", "small", "(hash 'a 1 'b 2)"), ("hash", "small", '(hash "k" (list 1 2) 2 3)'),
    ("hashset", "empty", "(hashset)"), ("hashset", "small", "(hashset 1 2 3)"),
    ("bytes", "empty", "(bytes)"), ("bytes", "small", "(bytes 1 2 3)"), ("bytes", "small", "(bytes 255 254 0)"), ("bytes", "utf8", "(bytes 104 105)"),
    ("bytes", "huge", "(make-bytes 5000 65)"),
    ("closure", "arity1", "(lambda (x) x)"), ("closure", "arity0", "(lambda () 1)"), ("closure", "variadic", "(lambda args args)"),
    ("closure", "arity2", "(lambda (a b) (+ a b))"), ("closure", "raising", "(lambda (x) (error \"c07-callback\"))"),
    ("closure", "pred", "(lambda (x) #t)"), ("closure", "capturing", "(let ([k 5]) (lambda (x) (+ x k)))"),
    ("prim", "small", "car"), ("prim", "small", "+"), ("prim", "ctx", "apply"),
    ("box", "small", "(box 1)"), ("struct", "small", "(c07pt 1 2)"), ("struct", "opt", "(Some 1)"), ("struct", "opt", "(None)"),
    ("struct", "result", "(Ok 1)"), ("struct", "result", "(Err 1)"),
    ("port", "instring", '(open-input-string "abc (1 2)")'), ("port", "outstring", "(open-output-string)"), ("port", "inbytes", "(open-input-bytevector (bytes 1 2))"),
    ("stream", "empty", "empty-stream"), ("stream", "small", "(stream-cons 1 (lambda () empty-stream))"),
    ("eof", "small", "(eof-object)"), ("transducer", "small", "(mapping (lambda (x) x))"), ("transducer", "small", "(taking 2)"),
    ("reducer", "small", "(into-list)"), ("syntax", "small", "#'(a b)"), ("iterator", "small", "(value->iterator (list 1 2))"),
    ("mutvecprim", "small", "(make-mutable-vector)"), ("tls", "small", "c07-tls"), ("weakbox", "small", "(make-weak-box (list 1))"),
    ("cont", "small", "(call/cc (lambda (k) k))"), ("instant", "small", "(instant/now)"), ("duration", "small", "(duration-since (instant/now) (instant/now))"),
]
SWEEP_PRELUDE = """(struct c07pt (x y) #:mutable #:transparent)
;;;;
(define c07-tls (make-tls 0))
;;;;
(define make-mutable-vector (%module-get% %-builtin-module-#%private/steel/mvector 'make-mutable-vector))
;;;;
(define (c07-probe) (list (+ 1 2) (c07pt-x (c07pt 4 5)) (map (lambda (x) (* x x)) (list 1 2 3))))
"""
PROBE = "(c07-probe)"
PROBE_EXPECT = ["(I3 I4 (I1 I4 I9))"]


def list_builtins(ck):
    rc, out = ck.harness_run("c07", ["--list"], timeout=120)
    line = [l for l in out.splitlines() if l.startswith("{")]
    if rc != 0 or not line:
        raise TieBroken("c07 --list failed: rc=%s %s" % (rc, out[-800:]))
    return json.loads(line[-1])["modules"]


def sweep_targets(mods):
    """[(module, name, kind, global)] after the deny-list; denied: {name: reason}."""
    targets, denied = [], {}
    seen = set()
    for m in sorted(mods):
        for ent in mods[m]:
            n = ent["name"]
            if ent["kind"] == "value":
                continue
            why = DENY_MODULES.get(m) or DENY_NAMES.get(n)
            for pfx, w in DENY_PREFIX.items():
                if n.startswith(pfx):
                    why = w
            if why:
                denied["%s:%s" % (m, n)] = why
                continue
            if n in seen and ent["global"]:
                continue  # re-exported by steel/base under the same global name
            seen.add(n)
            targets.append((m, n, ent["kind"], ent["global"]))
    return targets, denied


def callee(mod, name, is_global):
    if is_global and not re.search(r"[\s()\[\]{}\"';`,|]", name):
        return name
    return "(%%module-get%% %%-builtin-module-%s '%s)" % (mod, name)


def call_src(mod, name, is_global, args, shape="direct"):
    f = callee(mod, name, is_global)
    a = " ".join(p[2] for p in args)
    if shape == "apply":
        return "(apply %s (list %s))" % (f, a)
    if shape == "host" and f == name:
        return ";;call %s (list %s)" % (name, a)
    if shape == "lambda":
        return "((lambda (c07f) (c07f %s)) %s)" % (a, f)
    return "(%s %s)" % (f, a) if a else "(%s)" % f


def gen_calls(rng, n_per_arity, dense=False):
    """argument tuples for one built-in: arity 0..4 over the pool."""
    out = [[]]
    ones = list(POOL) if dense else rng.sample(POOL, min(len(POOL), n_per_arity[1]))
    out += [[p] for p in ones]
    for ar in (2, 3, 4):
        for _ in range(n_per_arity[ar]):
            out.append([rng.choice(POOL) for _ in range(ar)])
    return out


def same_kind_bias(rng, first, ar):
    """tuples whose first argument is fixed and the rest are integers/boundaries (index-like parameters)."""
    ints = [p for p in POOL if p[0] in ("int", "big", "float")]
    return [first] + [rng.choice(ints) for _ in range(ar - 1)]


def describe_call(mod, name, args, shape, outcome):
    d = {"search": "builtin", "module": mod, "builtin": name, "arity": len(args), "arg_kinds": [a[0] for a in args],
         "arg_classes": [a[1] for a in args], "args": [a[2] for a in args], "shape": shape,
         "source": call_src(mod, name, True, args, shape), "outcome": kind_of_outcome(outcome)}
    if "panic" in outcome:
        f, m = site_of(outcome["panic"])
        d["panic"] = outcome["panic"]
        d["site_file"], d["site_msg"] = f, m
    if "crash" in outcome:
        d["crash"] = outcome["crash"]
        d["stderr"] = outcome.get("stderr", "")
    return d


# ---- known-finding predicates (decidable over the canonical failing-input description) -------------
def c07_builtin_panic_site(case, params):
    """A panic of built-in `builtin` at a site of file `site_file` whose message matches `msg_re`."""
    if case.get("search") != "builtin" or case.get("outcome") != "panic":
        return False
    if case.get("builtin") not in params.get("builtins", []):
        return False
    if params.get("site_file") and case.get("site_file") != params["site_file"]:
        return False
    if params.get("msg_re") and not re.search(params["msg_re"], case.get("site_msg", "")):
        return False
    if "arity" in params and case.get("arity") not in params["arity"]:
        return False
    return True


def c07_size_argument(case, params):
    """Resource exhaustion of a built-in whose work / allocation is proportional to a numeric argument, called with a
    magnitude >= 2^16: allocation-failure abort (`memory allocation of N bytes failed`), capacity-overflow / memory-overflow
    panic (any built-in: the symptom is unambiguous), or no answer within the time bound (listed built-ins only)."""
    if case.get("search") != "builtin":
        return False
    big = {"u16", "i32", "u32", "i64", "u64", "huge", "char", "inf"}
    if not any(k in ("int", "big", "float", "rat", "bigrat") and c in big
               for k, c in zip(case.get("arg_kinds", []), case.get("arg_classes", []))):
        return False
    out = case.get("outcome")
    if out == "crash":
        return "memory allocation of" in case.get("stderr", "") or case.get("builtin") in params.get("builtins", [])
    if out == "panic":
        return re.search(params.get("panic_re", "capacity overflow|alloc"), case.get("panic", "")) is not None
    if out == "hang":
        return case.get("builtin") in params.get("builtins", [])
    return False


def c07_jit_native_panic(case, params):
    """JIT on: a numeric comparison against an integer literal (`#%prim.=` / NUMEQUAL, e.g. `zero?`) applied to a
    non-number inside a natively compiled function hits unreachable!() in a native frame: process abort."""
    return (case.get("search") in ("jit", "source-jit") and case.get("outcome") == "crash"
            and re.search("failed to initiate panic|non-unwinding panic", case.get("stderr", "")) is not None and case.get("jit_off") == "err")


def c07_handler_raises_in_handler(case, params):
    """An error raised by a with-handler handler while another with-handler is active: the stale
    *meta-continuation* of the inner `reset` is invoked (vm.rs set_state_from_continuation panic)."""
    return (case.get("search") in ("history", "source", "source-jit") and case.get("outcome") == "panic"
            and "Failed to find an open continuation" in case.get("panic", "")
            and case.get("unit_shape") == "nested_handler_raise")


def c07_runtime_failure_keeps_interned_names(case, params):
    """The names a unit defines are interned (and redefinitions moved to a fresh slot) before the unit runs and this is
    not undone when the unit fails at RUN time: (a) a redefinition whose right-hand side fails loses the earlier
    definition, (b) a new name whose definition failed stays bound (reads as #<void>)."""
    if case.get("search") != "history":
        return False
    return ((case.get("outcome") == "definition-lost-after-failed-redefinition" and case.get("unit_shape") == "check_after_failed_redef")
            or (case.get("outcome") == "unbound-name-has-value" and case.get("unit_shape") == "undefined-probe"))


def c07_parser_f15(case, params):
    return case.get("search") == "source" and case.get("outcome") == "hang" and bool(re.search(r"\(define\s*\(\s*\(\s*\)", case.get("text", "")))


def c07_parser_panic(case, params):
    return (case.get("search") in ("source", "source-jit") and case.get("outcome") == "panic"
            and case.get("site_file") in params.get("files", []) and bool(re.search(params.get("msg_re", "."), case.get("site_msg", ""))))


def nesting_depth(text):
    """Decidable over-approximation of the syntactic nesting depth of a source text."""
    d = mx = 0
    q = 0
    for ch in text:
        if ch in "([{":
            d += 1
            mx = max(mx, d)
        elif ch in ")]}":
            d = max(0, d - 1)
        elif ch in "'`,":
            q += 1
    return mx + q


def c07_deep_source_nesting(case, params):
    """Source text nested deeper than `min_depth`: reader / expander / compiler passes recurse on the syntax tree
    with the native stack (stack overflow, SIGABRT)."""
    return (case.get("search") in ("source", "source-jit") and case.get("outcome") in ("crash", "hang")
            and case.get("depth", nesting_depth(case.get("text", ""))) >= params.get("min_depth", 2000))


def c07_jit_error_swallowed(case, params):
    """JIT on: a native helper stores the error in ctx.result but the compiled code carries on: the call returns
    #<void> (Ok) where the interpreter returns an error."""
    return case.get("search") == "jit" and case.get("outcome") == "swallowed" and case.get("jit_off") == "err" and case.get("jit_on") == "ok"


# --------------------------------------------------------------------------------------------------
# (a) source-text fuzz
# --------------------------------------------------------------------------------------------------
SEEDS = [
    "(define (fact n) (if (= n 0) 1 (* n (fact (- n 1))))) (fact 10)",
    "(let loop ([i 0] [acc '()]) (if (< i 5) (loop (+ i 1) (cons i acc)) (reverse acc)))",
    "(define-syntax swap! (syntax-rules () [(_ a b) (let ([tmp a]) (set! a b) (set! b tmp))])) (define x 1) (define y 2) (swap! x y) (list x y)",
    "(struct point (x y) #:transparent) (point-x (point 1 2))",
    "(map (lambda (x) (* x x)) (list 1 2 3)) `(1 ,(+ 1 1) ,@(list 3 4))",
    "(with-handler (lambda (e) 'caught) (error \"boom\" 1 2))",
    "(define h (hash 'a 1 'b 2)) (hash-ref h 'a) (vector-ref #(1 2 3) 1) (string-append \"a\" \"b\")",
    "(cond [(> 1 2) 'a] [else 'b]) (case 3 [(1 2) 'low] [(3 4) 'mid] [else 'hi]) (when #t 1 2) (unless #f 3)",
    "(define (f #:key [k 1] . rest) rest) (let* ([a 1] [b (+ a 1)]) (letrec ([ev? (lambda (n) (if (= n 0) #t (od? (- n 1))))] [od? (lambda (n) (if (= n 0) #f (ev? (- n 1))))]) (ev? 10)))",
    "(call/cc (lambda (k) (+ 1 (k 42)))) (dynamic-wind (lambda () 1) (lambda () 2) (lambda () 3)) (apply + 1 2 '(3 4))",
    "#\\a #\\space \"str\\n\\t\\\"q\\\"\" 1/2 -1.5e10 #t #f #(1 2) #u8(1 2 3) 'sym '|a b| #:kw 1+2i +inf.0 -nan.0 #x1F #b101",
    "(begin (define lst (range 0 10)) (transduce lst (mapping add1) (filtering even?) (into-list)))",
    "(require \"steel/result\") (provide foo) (module m racket)",
    "(define-values (a b) (values 1 2)) (let-values ([(x y) (values 1 2)]) (+ x y))",
    "#| block |# ; line\n#;(datum comment) (quote (1 . 2)) (quasiquote (a (unquote b) (unquote-splicing c)))",
]
TOKENS = ["(", ")", "[", "]", "{", "}", "'", "`", ",", ",@", "#(", "#u8(", "#\\", "#\\a", "#\\space", "#\\x41", "\"", "\"abc\"", "\"\\", "\\",
          "#t", "#f", "#true", "#", "#;", "#|", "|#", "|", ";", "\n", " ", ".", "...", "..", "1", "-1", "1/2", "1/0", "1e400", "-1e-400", "+inf.0", "+nan.0",
          "1+2i", "#x", "#xFF", "#b2", "#e1.5", "#i1/3", "99999999999999999999999999", "define", "lambda", "let", "let*", "letrec", "if", "cond", "else", "quote",
          "quasiquote", "unquote", "unquote-splicing", "set!", "begin", "define-syntax", "syntax-rules", "struct", "require", "provide", "module", "=>", "_",
          "x", "y", "f", "#:key", "#%prim.car", "car", "+", "λ", "é", "\U0001F600", "\x00", "\t", "\r", "#!eof", "#'", "#`", "#,", "@", "%", "#%app", "#<void>",
          "(define", "(lambda (", "(let ((", "((", "))", "'()", "#()", "(. ", " . )", "( . )", "(define (", "(define (f . ", "(define ((f a) b)", "(struct s (", "#:mutable"]


def gen_source(rng, kind):
    if kind == "bytes":
        n = rng.choice([0, 1, 2, 3, 5, 8, 16, 40, 100, 400])
        b = bytes(rng.getrandbits(8) for _ in range(n))
        return b.decode("utf-8", "replace") if rng.random() < 0.5 else b.decode("latin-1")
    if kind == "soup":
        n = rng.choice([1, 2, 3, 5, 8, 13, 21, 40, 80])
        sep = rng.choice(["", " ", " ", "\n"])
        return sep.join(rng.choice(TOKENS) for _ in range(n))
    if kind == "mutate":
        s = rng.choice(SEEDS)
        for _ in range(rng.choice([1, 1, 2, 3, 5])):
            if not s:
                break
            i = rng.randrange(len(s))
            j = min(len(s), i + rng.choice([1, 1, 2, 5, 12]))
            op = rng.choice(["del", "dup", "ins", "swap", "paren", "tok"])
            if op == "del":
                s = s[:i] + s[j:]
            elif op == "dup":
                s = s[:j] + s[i:j] + s[j:]
            elif op == "ins":
                s = s[:i] + chr(rng.choice([0, 9, 10, 34, 35, 39, 40, 41, 44, 46, 59, 92, 96, 124, 0x3bb, 0x1F600, rng.randrange(32, 127)])) + s[i:]
            elif op == "swap":
                k = rng.randrange(len(s))
                a, b = min(i, k), max(i, k)
                s = s[:a] + s[b:b + 1] + s[a + 1:b] + s[a:a + 1] + s[b + 1:]
            elif op == "paren":
                s = s[:i] + rng.choice("()[]") + s[i:]
            else:
                s = s[:i] + " " + rng.choice(TOKENS) + " " + s[i:]
        return s
    if kind == "truncate":
        s = rng.choice(SEEDS)
        return s[:rng.randrange(len(s) + 1)]
    raise ValueError(kind)


DEEP_FORMS = [("paren", "(", "", ")"), ("quote", "'", "a", ""), ("list", "(list ", "1", ")"), ("vector", "#(", "", ")"),
              ("add", "(+ 1 ", "1", ")"), ("quasi", "`", "a", ""), ("bracket", "[", "", "]"), ("lambda", "(lambda () ", "1", ")"),
              ("unclosed", "(", "", ""), ("let", "(let ((x 1)) ", "x", ")"), ("if", "(if #t ", "1", " 2)")]


def deep_source(form, n):
    _, a, mid, b = [f for f in DEEP_FORMS if f[0] == form][0]
    return a * n + mid + b * n


def describe_source(text, outcome, kind):
    d = {"search": "source", "kind": kind, "text": text if len(text) <= 4000 else text[:2000] + text[-2000:], "length": len(text),
         "outcome": kind_of_outcome(outcome), "depth": nesting_depth(text)}
    if len(text) > 4000:
        d["text_elided"] = True
    if "panic" in outcome:
        d["panic"] = outcome["panic"]
        d["site_file"], d["site_msg"] = site_of(outcome["panic"])
    if "crash" in outcome:
        d["crash"] = outcome["crash"]
        d["stderr"] = outcome.get("stderr", "")
    return d


# --------------------------------------------------------------------------------------------------
# (c) histories with a python reference of what each successful unit defined
# --------------------------------------------------------------------------------------------------
HIST_PRELUDE = """(define (c07-tr-inner) (transduce (list 1 2 3) (mapping (lambda (x) (error "c07-boom"))) (into-list)))
;;;;
(define (c07-tr-mid) (+ 1 (c07-tr-inner)))
;;;;
(define (c07-tr-outer) (+ 1 (c07-tr-mid)))
;;;;
(define (c07-deep n) (if (= n 0) 0 (+ 1 (c07-deep (- n 1)))))
"""


class History:
    """Reference: globals defined so far (ints and unary int functions x -> a*x + b)."""

    def __init__(self, rng):
        self.rng = rng
        self.vars = {}       # name -> int
        self.funs = {}       # name -> (a, b)
        self.undefined = set()   # names interned by a failing unit but never bound
        self.n = 0
        self.checks = []     # (position, name, expected value) probes right after a failing redefinition
        self.lost = set()    # names hit by the known run-time-failure roll-back defect: left out of later expressions
        self.units_so_far = []

    def fresh(self, p):
        self.n += 1
        return "c07%s%d" % (p, self.n)

    def expr(self, depth=0):
        """(source, value) of an int expression over the current definitions."""
        r = self.rng
        c = r.random()
        usable = sorted(set(self.vars) - self.lost)
        if usable and c < 0.3:
            v = r.choice(usable)
            return v, self.vars[v]
        if self.funs and c < 0.5 and depth < 2:
            f = r.choice(sorted(self.funs))
            s, x = self.expr(depth + 1)
            a, b = self.funs[f]
            return "(%s %s)" % (f, s), a * x + b
        if c < 0.7 and depth < 2:
            s1, x1 = self.expr(depth + 1)
            s2, x2 = self.expr(depth + 1)
            return "(+ %s %s)" % (s1, s2), x1 + x2
        k = r.randint(-50, 50)
        return str(k), k

    def step(self):
        r = self.rng
        shape = r.choice(["def", "def", "deffun", "redef", "set", "handled", "handled_nested_run", "redef_runtime_fail" if r.random() < 0.25 else "def",
                          "parse_err", "free_id", "free_id_redef", "runtime_mid", "arity_err", "callback_err", "nested_call_err",
                          "transducer_err", "handler_in_fn", "apply_err", "struct_err"])
        if shape == "def":
            n = self.fresh("v")
            s, x = self.expr()
            self.vars[n] = x
            self.undefined.discard(n)
            return shape, "(define %s %s)" % (n, s), "ok"
        if shape == "deffun":
            n = self.fresh("f")
            a, b = r.randint(-3, 3), r.randint(-9, 9)
            self.funs[n] = (a, b)
            return shape, "(define (%s x) (+ (* %d x) %d))" % (n, a, b), "ok"
        if shape == "redef" and len(self.vars) > 1:
            n = r.choice(sorted(self.vars))
            old = self.vars.pop(n)          # Steel resolves a redefinition's own name to the new (unbound) slot
            s, x = self.expr()
            self.vars[n] = x
            self.lost.discard(n)
            return shape, "(define %s %s)" % (n, s), "ok"
        if shape == "redef_runtime_fail" and self.vars:
            # a redefinition whose right-hand side fails at run time: the earlier definition must stay
            n = r.choice(sorted(self.vars))
            bad = r.choice(["(car 5)", "(vector-ref (vector) 0)", "(error \"c07\")", "(+ 1 \"a\")"])
            self.checks.append((len(self.units_so_far), n, self.vars[n]))
            self.lost.add(n)
            return shape, "(define %s %s)" % (n, bad), "err"
        if shape == "set" and set(self.vars) - self.lost:
            n = r.choice(sorted(set(self.vars) - self.lost))
            s, x = self.expr()
            self.vars[n] = x
            return shape, "(set! %s %s)" % (n, s), "ok"
        if shape == "handled":
            n = self.fresh("v")
            s, x = self.expr()
            self.vars[n] = x
            return shape, "(define %s (with-handler (lambda (e) %s) (+ 1 (car (list)))))" % (n, s), "ok"
        if shape == "handled_nested_run":
            n = self.fresh("v")
            s, x = self.expr()
            self.vars[n] = x
            return shape, "(define %s (with-handler (lambda (e) %s) (+ 1 (c07-tr-outer))))" % (n, s), "ok"
        if shape == "handler_in_fn":
            n = self.fresh("v")
            s, x = self.expr()
            self.vars[n] = x + 1
            return shape, "(define %s (+ 1 (with-handler (lambda (e) %s) (vector-ref (vector 1 2) 5))))" % (n, s), "ok"
        if shape == "parse_err":
            n = self.fresh("v")
            return shape, r.choice(["(define %s 1" % n, "(define %s 1))" % n, "(define %s \"abc)" % n, "(define %s #\\)" % n, ")(define %s 1)" % n]), "err"
        if shape == "free_id":
            n = self.fresh("v")
            self.undefined.add(n)
            return shape, "(define %s 5) (c07-this-is-undefined-%d)" % (n, self.n), "err"
        if shape == "free_id_redef" and set(self.vars) - self.lost:
            n = r.choice(sorted(set(self.vars) - self.lost))
            return shape, "(define %s 123456) (c07-this-is-undefined-%d %s)" % (n, self.n, n), "err"
        if shape == "runtime_mid":
            a, b = self.fresh("v"), self.fresh("v")
            s, x = self.expr()
            self.vars[a] = x
            self.undefined.add(b)
            bad = r.choice(["(car 5)", "(vector-ref (vector) 0)", "(+ 1 \"a\")", "(error \"c07\")", "(hash-ref (hash) 'nope)", "(/ 1 0)",
                            "(string-ref \"abc\" 10)", "(list-ref (list 1 2) 7)", "(substring \"abc\" 2 1)", "(integer->char -1)"])
            return shape, "(define %s %s) %s (define %s 2)" % (a, s, bad, b), "err"
        if shape == "arity_err" and self.funs:
            f = r.choice(sorted(self.funs))
            n = self.fresh("v")
            self.undefined.add(n)
            return shape, "(define %s (%s 1 2 3))" % (n, f), "err"
        if shape == "callback_err":
            n = self.fresh("v")
            self.undefined.add(n)
            return shape, "(define %s (map (lambda (x) (if (= x 2) (error \"c07-cb\") x)) (list 1 2 3)))" % n, "err"
        if shape == "nested_call_err" and self.funs:
            f = r.choice(sorted(self.funs))
            n = self.fresh("v")
            self.undefined.add(n)
            return shape, "(define %s (+ 1 (%s (+ 2 (%s (car (list)))))))" % (n, f, f), "err"
        if shape == "transducer_err":
            n = self.fresh("v")
            self.undefined.add(n)
            return shape, "(define %s (+ 1 (c07-tr-outer)))" % n, "err"
        if shape == "apply_err":
            n = self.fresh("v")
            self.undefined.add(n)
            return shape, "(define %s (apply + (list 1 'a)))" % n, "err"
        if shape == "struct_err":
            n = self.fresh("v")
            self.undefined.add(n)
            return shape, "(struct %s-s (a)) (define %s (%s-s-a 5))" % (n, n, n), "err"
        return self.step()

    def probe(self):
        names = sorted(set(self.vars) - self.lost)
        calls = [(f, k) for f in sorted(self.funs) for k in (0, 7)]
        src = "(list %s)" % " ".join(names + ["(%s %d)" % fk for fk in calls])
        want = "(%s)" % " ".join(["I%d" % self.vars[n] for n in names] + ["I%d" % (self.funs[f][0] * k + self.funs[f][1]) for f, k in calls])
        return src, want


def gen_history(rng, length, extra=()):
    h = History(rng)
    units = []
    for _ in range(length):
        h.units_so_far = units
        u = h.step()
        units.append(u)
        if u[0] == "redef_runtime_fail":
            _, name, val = h.checks[-1]
            units.append(("check_after_failed_redef", name, "value:I%d" % val))
    for e in extra:
        units.insert(rng.randrange(len(units) + 1), e)
    return h, units


NESTED_HANDLER_RAISE = ("nested_handler_raise",
                        "(with-handler (lambda (e) 'outer) (+ 1 (with-handler (lambda (e) (error \"again\")) (error \"x\"))))", "ok")
DEEP_RECURSION = ("deep_recursion", "(c07-deep 20000000)", "err")
STACK_PROBE = "(#%verif-stack-depth)"


# --------------------------------------------------------------------------------------------------
# JIT-on sweep of numeric / type predicates inside compiled lambdas
# --------------------------------------------------------------------------------------------------
JIT_FORMS = ["(zero? x)", "(positive? x)", "(negative? x)", "(even? x)", "(odd? x)", "(add1 x)", "(sub1 x)", "(= x 0)", "(= x 1)", "(= 0 x)", "(= x x)",
             "(#%prim.= x 0)", "(< x 0)", "(< 0 x)", "(> x 1)", "(<= x 1)", "(>= x 1)", "(+ x 1)", "(+ 1 x)", "(- x 1)", "(- 1 x)", "(- x)", "(* x 2)", "(/ x 2)", "(/ 2 x)",
             "(+ x x x)", "(* x x x)", "(- x x x)", "(car x)", "(cdr x)", "(cons x x)", "(null? x)", "(not x)", "(vector-ref x 0)", "(list-ref x 0)", "(unbox x)",
             "(set-box! x 1)", "(box x)", "(equal? x 0)", "(eq? x x)", "(number? x)", "(integer? x)", "(string? x)", "(if (zero? x) 1 2)", "(if (= x 0) 1 2)",
             "(let loop ([i 3] [acc x]) (if (= i 0) acc (loop (- i 1) (+ acc 1))))", "(abs x)", "(quotient x 2)", "(modulo x 2)", "(exact->inexact x)", "(string-length x)", "(length x)",
             "(hash-ref x 'a)", "(vector-length x)", "(first x)", "(empty? x)", "(cadr x)",
             "(filter even? x)", "(filter x (list 1 2))", "(map add1 x)", "(map x (list 1 2))", "(foldl + 0 x)", "(reverse x)", "(append x x)", "(list-tail x 1)",
             "(assoc 1 x)", "(member 1 x)", "(apply + x)", "(for-each void x)", "(last x)", "(take x 1)", "(string-append x x)", "(hash-insert x 1 2)",
             "(vector-set! x 0 1)", "(list->vector x)", "(max x 1)", "(min 1 x)", "(exact x)", "(square x)"]
JIT_ARGS = [p for p in POOL if (p[0], p[1]) in {
    ("int", "zero"), ("int", "i64"), ("big", "i64"), ("rat", "small"), ("bigrat", "i32"), ("float", "small"), ("float", "nan"), ("float", "inf"),
    ("complex", "small"), ("string", "empty"), ("string", "small"), ("char", "small"), ("symbol", "small"), ("bool", "small"), ("void", "small"),
    ("list", "empty"), ("list", "small"), ("pair", "small"), ("mvec", "small"), ("ivec", "small"), ("hash", "small"), ("bytes", "small"),
    ("closure", "arity1"), ("prim", "small"), ("box", "small"), ("struct", "small"), ("port", "instring")}]


# --------------------------------------------------------------------------------------------------
def runtime_constant_histories(ck):
    """Values that enter the constant / interner tables at RUN time (string->symbol, string->keyword-like names, eval of
    a constructed quote) are later written as literals by units that introduce no other new constant, with failing
    units in between: every unit has to give its value or an error value, never a panic."""
    cases, wants = [], []
    for k, mk in enumerate(['(string->symbol "c07rt-%d")', '(string->symbol (string-append "c07" "rt-%d"))',
                            '(car (list (string->symbol "c07rt-%d")))', '(eval (list (quote quote) (string->symbol "c07rt-%d")))']):
        name = "c07rt-%d" % k
        units = ["(define c07made %s)" % (mk % k), "(car c07made)", "(eq? c07made '%s)" % name, "(list '%s c07made)" % name,
                 "(car 5)", "(symbol->string '%s)" % name, "(define (c07use) (list '%s))" % name, "(c07use)", PROBE]
        cases.append(units)
        wants.append({2: "#t", 3: "('\"%s\" '\"%s\")" % (name, name), 5: '"%s"' % name, 7: "('\"%s\")" % name})
    for env in ({"STEEL_JIT": "true"}, {"STEEL_JIT": "false"}):
        res = run_cases(ck, cases, env=env, fresh=True, batch=2, stall=30)
        for units, want, r in zip(cases, wants, res):
            for i, u in enumerate(units):
                ck.cov["evaluations"] += 1
                o = (r[i] if i < len(r) else None) or {"missing": 1}
                kind = kind_of_outcome(o) if "missing" not in o else "missing"
                bad = kind not in ("ok", "err") or (i in want and (o.get("ok") or [None])[-1] != want[i])
                if bad:
                    ck.failing_input("history with a run-time constant, unit %d `%s` (JIT %s): %s, expected %s"
                                     % (i, u, env["STEEL_JIT"], json.dumps(o)[:200], want.get(i, "a value or an error value")),
                                     {"search": "runtime-constant", "units": units[:i + 1], "unit": i, "outcome": o, "kind": kind,
                                      "jit": env["STEEL_JIT"]}, tag="rtconst")
                    break
    ck.cov["runtime_constant_histories"] = len(cases)


SIS_STRINGS = ["", "abc", "\u03b1\u03b2\u03b3", "a\u00e9\U0001F600b", "\U0001F600\U0001F600", "\u65e5\u672c\u8a9ex"]
SIS_FUNCS = ["substring", "string->list", "string->vector", "string->bytes"]


def string_index_sweep(ck):
    """The built-ins that take CHARACTER indices into a string (strings.rs `bounds`: substring, string->list,
    string->vector, string->bytes) on strings with 1-, 2-, 3- and 4-byte characters, every index and index pair
    from 0 to length + 2 (empty ranges and positions inside a multi-byte character included).  Oracle: Python
    string slicing by code point; an index beyond the length or a start above the end is an error; no panic."""
    units, meta = [], []
    for s_ in SIS_STRINGS:
        n = len(s_)
        for f in SIS_FUNCS:
            for i in range(0, n + 3):
                units.append('(%s "%s" %d)' % (f, s_, i))
                meta.append((f, s_, i, None))
                for j in range(0, n + 3):
                    units.append('(%s "%s" %d %d)' % (f, s_, i, j))
                    meta.append((f, s_, i, j))
    # one engine per (string, function) group; a crash loses only that group
    groups = {}
    for k, (f, s_, i, j) in enumerate(meta):
        groups.setdefault((f, s_), []).append(k)
    keys = list(groups)
    res = run_cases(ck, [[units[k] for k in groups[g]] for g in keys], fresh=True, batch=4, stall=30)
    bad = 0
    for g, rs in zip(keys, res):
        for k, r in zip(groups[g], list(rs) + [None] * (len(groups[g]) - len(rs))):
            f, s_, i, j = meta[k]
            n = len(s_)
            jj = n if j is None else j
            ck.cov["evaluations"] += 1
            r = r or {"missing": 1}
            if i > jj or jj > n or i > n:
                ok = "err" in r
                want = "an error"
            else:
                sub = s_[i:jj]
                want = json.dumps(sub, ensure_ascii=False)
                if "ok" not in r:
                    ok = False
                else:
                    got = r["ok"][-1] if r["ok"] else ""
                    if f == "substring":
                        ok = got == want
                    elif f in ("string->list", "string->vector"):
                        ok = [int(x, 16) for x in re.findall(r"#\\x([0-9a-fA-F]+)", got)] == [ord(c) for c in sub]
                    else:
                        ok = True
            if not ok:
                bad += 1
                if bad <= 6:
                    ck.failing_input("%s: expected %s, engine gave %s" % (units[k], want, json.dumps(r)[:160]),
                                     {"search": "string-index", "units": [units[k]], "call": units[k], "expected": want,
                                      "outcome": r, "kind": kind_of_outcome(r) if "missing" not in r else "missing"}, tag="stridx")
    ck.cov["string_index_sweep"] = {"calls": len(units), "strings": len(SIS_STRINGS), "functions": SIS_FUNCS, "failing": bad}
    ck.log("string index sweep: %d calls, %d failing" % (len(units), bad))


def run(ck):
    ck.cov["trusted_base"] = [
        "Coq 8.16.1 kernel, coqc (no vm_compute / native_compute in proofs beyond `reflexivity` on closed witnesses)",
        "hand-written model coq/c07/Model_C07.v of vm.rs execute / call_with_instructions_and_reset_state / call_with_args / "
        "handle_pop_pure / call_with_exception_handler, engine.rs raw_program_to_executable + map.rs SymbolMap::add, "
        "strings.rs bounds, bytevectors.rs bytes_to_string (read line by line; continuation marks not modelled)",
        "harness/src/bin/c07.rs (built-in enumeration, per-unit evaluation server, panic hook of harness/src/lib.rs), "
        "worker pool `run_cases` in checks/c07.py (address-space limit 2 GiB per worker, stall detection)",
        "python reference of histories (`History`) as oracle for what each successful unit defined",
        "#%verif-stack-depth hook (cfg steel_verif) for the frame/operand stack lengths",
    ]
    ck.assumptions = [
        "crash oracle only for the ~620 built-ins that have no Coq model: 'returns Ok|Err, engine answers the probe afterwards'",
        "source texts are valid UTF-8 strings (arbitrary bytes are decoded lossily, as the embedding API takes a String)",
        "I/O, process, thread-spawning, FFI, sleeping built-ins are outside the sweep (deny-list recorded in coverage.deny_list)",
    ]
    quick = ck.tier == "quick"
    proved = ck.proof_stage(["c07"], ["c07/Properties_C07"], "c07/Pins_C07.v")
    ck.harness_build(["c07"])
    model_correspondence(ck, 60 if quick else 600)
    rng = ck.rng
    hist = {}
    distinct = set()
    dump = []
    orig_fi = ck.failing_input

    def fi(what, case, tag=None):
        dump.append({"what": what, "case": case, "classified": ck.classify(case)})
        return orig_fi(what, case, tag)
    ck.failing_input = fi

    def count(kind, o):
        hist[kind + ":" + kind_of_outcome(o)] = hist.get(kind + ":" + kind_of_outcome(o), 0) + 1
        ck.cov["evaluations"] += 1

    # ---------------- (b) built-in sweep, JIT off --------------------------------------------------
    mods = list_builtins(ck)
    targets, denied = sweep_targets(mods)
    ck.cov["builtin_modules"] = len(mods)
    ck.cov["builtins_swept"] = len(targets)
    ck.cov["deny_list"] = denied
    if len(targets) < 400:
        raise TieBroken("only %d built-ins enumerated from the engine's modules" % len(targets))
    n_per = {1: 8, 2: 9, 3: 6, 4: 2} if quick else {1: len(POOL), 2: 160, 3: 160, 4: 50}
    cases, meta = [], []
    corpus = load_corpus()
    by_name = {n: (m, g) for (m, n, _, g) in targets}
    for (m, n, kind, g) in targets:
        tuples = gen_calls(rng, n_per, dense=not quick)
        for ar in (2, 3):
            for _ in range(2 if quick else 25):
                tuples.append(same_kind_bias(rng, rng.choice(POOL), ar))
        units, ms = [], []
        for c in corpus.get("builtin", []):
            if c["builtin"] == n:
                args = [("corpus", "corpus", a) for a in c["args"]]
                units.append(call_src(m, n, g, args))
                ms.append((args, "direct"))
        for args in tuples:
            shape = rng.choice(["direct", "direct", "direct", "apply", "lambda", "host"])
            units.append(call_src(m, n, g, args, shape))
            ms.append((args, shape))
        units.append(PROBE)
        ms.append(None)
        cases.append(units)
        meta.append((m, n, ms))
    t0 = time.time()
    res = run_cases(ck, cases, prelude=SWEEP_PRELUDE, env={"STEEL_JIT": "false"}, fresh=True, batch=6, stall=20)
    ck.log("built-in sweep: %d calls on %d built-ins in %.0fs" % (sum(len(c) - 1 for c in cases), len(cases), time.time() - t0))
    fails = {}
    for (m, n, ms), units, r in zip(meta, cases, res):
        for u, a, o in zip(units, ms, r):
            o = o or {"missing": 1}
            k = kind_of_outcome(o)
            count("builtin", o)
            if a is None:
                if k == "ok" and o.get("ok") != PROBE_EXPECT or k not in ("ok", "skipped"):
                    fails.setdefault((n, "probe", k), describe_call(m, n, [], "probe", o))
                continue
            args, shape = a
            distinct.add(("b", n, tuple(x[0] for x in args), k))
            if k in ("panic", "crash", "hang", "missing"):
                d = describe_call(m, n, args, shape, o)
                d["source"] = u
                key = (n, k) + ((d.get("site_file"), d.get("site_msg")) if k == "panic" else ())
                fails.setdefault(key, d)
    # a stall can be the machine, not the engine: a hang only counts when the call alone, on a fresh engine and with a
    # six times longer bound, still does not come back
    hk = [key for key, d in fails.items() if d["outcome"] == "hang" and ck.classify(d) is None]
    if hk:
        conf = run_cases(ck, [[fails[key]["source"]] for key in hk], prelude=SWEEP_PRELUDE, env={"STEEL_JIT": "false"}, fresh=True, batch=1,
                         stall=120, nproc=8)
        for key, r in zip(hk, conf):
            o = r[0] or {"missing": 1}
            if kind_of_outcome(o) in ("ok", "err"):
                del fails[key]
            elif kind_of_outcome(o) != "hang":
                d2 = describe_call(fails[key]["module"], fails[key]["builtin"], [], fails[key]["shape"], o)
                fails[key].update({k: v for k, v in d2.items() if k in ("outcome", "panic", "site_file", "site_msg", "crash", "stderr")})
    for key, d in sorted(fails.items(), key=lambda kv: str(kv[0])):
        ck.failing_input("built-in %s: %s on %s%s" % (d["builtin"], d["outcome"], d["source"][:200],
                                                       (" [" + d.get("panic", "")[:160] + "]") if "panic" in d else ""), d, tag="builtin")
    ck.cov["builtin_failing_classes"] = len(fails)

    # ---------------- character-indexed string built-ins: every index pair on multi-byte strings -----
    string_index_sweep(ck)
    # ---------------- constants that come into being at run time and are written as literals later ------
    runtime_constant_histories(ck)
    # ---------------- JIT-on sweep ------------------------------------------------------------------
    forms = JIT_FORMS if not quick else rng.sample(JIT_FORMS, 16) + ["(zero? x)", "(sub1 x)"]
    jcases, jmeta = [], []
    for form in dict.fromkeys(forms):
        args = JIT_ARGS if not quick else rng.sample(JIT_ARGS, 7)
        for a in args:
            jcases.append(["(define (c07-jit-f x) %s)" % form, "(c07-jit-f %s)" % a[2], "(c07-jit-f %s)" % a[2], PROBE])
            jmeta.append((form, a))
    t0 = time.time()
    jon = run_cases(ck, jcases, prelude=SWEEP_PRELUDE, env={"STEEL_JIT": "true"}, fresh=False, batch=25, stall=20)
    joff = run_cases(ck, jcases, prelude=SWEEP_PRELUDE, env={"STEEL_JIT": "false"}, fresh=False, batch=25, stall=20)
    ck.log("JIT sweep: %d cases x2 in %.0fs" % (len(jcases), time.time() - t0))
    jf = {}
    for (form, a), units, r1, r0 in zip(jmeta, jcases, jon, joff):
        for idx in (1, 2):
            o1, o0 = r1[idx] or {"missing": 1}, r0[idx] or {"missing": 1}
            count("jit", o1)
            k1, k0 = kind_of_outcome(o1), kind_of_outcome(o0)
            distinct.add(("j", form, a[0], k1))
            d = {"search": "jit", "form": form, "arg": a[2], "arg_kind": a[0], "units": units, "jit_on": k1, "jit_off": k0}
            if k1 in ("panic", "crash", "hang", "missing"):
                d["outcome"] = k1
                d.update({k: v for k, v in o1.items() if k in ("panic", "crash", "stderr")})
                jf.setdefault((form, k1, a[0] in ("int", "big", "rat", "bigrat", "float", "complex")), d)
            elif k1 == "ok" and k0 == "err":
                d["outcome"] = "swallowed"
                d["jit_on_value"] = o1.get("ok")
                d["jit_off_error"] = o0.get("msg")
                jf.setdefault((form, "swallowed"), d)
            if k0 in ("panic", "crash", "hang", "missing"):
                d2 = dict(d, outcome=k0, search="jit-off")
                jf.setdefault((form, "off", k0), d2)
    for key, d in sorted(jf.items(), key=lambda kv: str(kv[0])):
        ck.failing_input("JIT %s: %s applied to %s -> %s (JIT off: %s)" % (d["search"], d["form"], d["arg"], d["outcome"], d["jit_off"]), d, tag="jit")

    # ---------------- (a) source-text fuzz -----------------------------------------------------------
    texts = [(c["kind"], c["text"]) for c in corpus.get("source", [])]
    n_fuzz = 2000 if quick else 60000
    for i in range(n_fuzz):
        kind = rng.choice(["bytes", "soup", "soup", "mutate", "mutate", "mutate", "truncate"])
        texts.append((kind, gen_source(rng, kind)))
    for form in [f[0] for f in DEEP_FORMS]:
        for n in ([300, 1200] if quick else [100, 300, 600, 1200, 1500]):
            texts.append(("nest:" + form, deep_source(form, n)))
    deep_forms = rng.sample([f[0] for f in DEEP_FORMS if f[0] != "let"], 3) if quick else [f[0] for f in DEEP_FORMS]
    for form in deep_forms:
        for n in ([10 ** 4] if quick else [10 ** 4, 3 * 10 ** 4, 10 ** 5]):
            texts.append(("deep:" + form, deep_source(form, n)))
    t0 = time.time()
    sres = run_cases(ck, [[t, PROBE] for _, t in texts], prelude=SWEEP_PRELUDE, env={"STEEL_JIT": "false"}, fresh=False, batch=120, stall=20,
                     mem_gb=4, nproc=8)
    # the same texts with the JIT on (subset): a native-frame panic aborts the process; classified with the JIT-off outcome
    jsub = [i for i, (kind, _) in enumerate(texts) if kind in ("mutate", "truncate", "soup") and (not quick or i % 3 == 0)]
    jres = run_cases(ck, [[texts[i][1]] for i in jsub], prelude=SWEEP_PRELUDE, env={"STEEL_JIT": "true"}, fresh=False, batch=120, stall=20,
                     mem_gb=4, nproc=8)
    # a text that does not come back may be a program that legitimately loops: only a hang of reading / expanding /
    # compiling it is a failing input
    hung = [i for i, r in enumerate(sres) if kind_of_outcome(r[0] or {"missing": 1}) == "hang"]
    if hung:
        cres = run_cases(ck, [[";;compile " + texts[i][1]] for i in hung], prelude=SWEEP_PRELUDE, fresh=False, batch=4, stall=20, mem_gb=4, nproc=8)
        for i, r in zip(hung, cres):
            if kind_of_outcome(r[0] or {"missing": 1}) in ("ok", "err"):
                sres[i][0] = {"nonterminating-program": 1}
    ck.cov["nonterminating_programs_met"] = sum(1 for r in sres if r[0] and "nonterminating-program" in r[0])
    ck.log("source fuzz: %d texts in %.0fs" % (len(texts), time.time() - t0))
    sf = {}
    for (kind, text), r in zip(texts, sres):
        o = r[0] or {"missing": 1}
        k = kind_of_outcome(o)
        count("source", o)
        distinct.add(("s", kind.split(":")[0], k, (o.get("err") or "")))
        if k in ("panic", "crash", "hang", "missing"):
            d = describe_source(text, o, kind)
            key = (k, d.get("site_file"), d.get("site_msg")) if k == "panic" else (k, kind if kind.startswith("deep") else "fuzz")
            sf.setdefault(key, d)
        p = r[1] or {"missing": 1}
        if k in ("ok", "err") and not (kind_of_outcome(p) == "ok" and p.get("ok") == PROBE_EXPECT):
            # the probe may legitimately be broken by a text that redefines what it uses; only crashes count
            if kind_of_outcome(p) in ("panic", "crash", "hang"):
                sf.setdefault(("probe", kind_of_outcome(p)), describe_source(text + "\n;;;; then " + PROBE, p, kind))
    for i, r in zip(jsub, jres):
        o = r[0] or {"missing": 1}
        k = kind_of_outcome(o)
        count("source-jit", o)
        k0 = kind_of_outcome(sres[i][0] or {"missing": 1})
        if k == k0 and k in ("panic", "crash"):
            continue        # the same failure without the JIT: already reported above
        if k in ("panic", "crash", "missing") or (k == "hang" and k0 != "hang" and k0 != "nonterminating-program"):
            d = describe_source(texts[i][1], o, texts[i][0])
            d["search"] = "source-jit"
            d["jit_off"] = k0
            sf.setdefault(("jit", k, d.get("site_file"), d.get("site_msg"), k0), d)
    for key, d in sorted(sf.items(), key=lambda kv: str(kv[0])):
        ck.failing_input("source text (%s, %d chars%s): %s %s" % (d["kind"], d["length"], ", JIT on" if d["search"] == "source-jit" else "",
                                                                   d["outcome"], d.get("panic", d.get("stderr", ""))[:160]), d, tag="source")

    # ---------------- (c) histories ---------------------------------------------------------------------
    n_hist = 100 if quick else 3000
    hcases, hmeta = [], []
    for i in range(n_hist):
        extra = []
        if i % 10 == 0:
            extra.append(NESTED_HANDLER_RAISE)
        if i == 1 or (not quick and i % 50 == 1):
            extra.append(DEEP_RECURSION)
        h, units = gen_history(rng, rng.choice([4, 8, 12, 20]), extra)
        psrc, pwant = h.probe()
        srcs = []
        for (shape, src, exp) in units:
            srcs.append(src)
        srcs.append(psrc)
        srcs.append(STACK_PROBE)
        undefined = sorted(h.undefined)[:6]
        srcs.extend(undefined)
        hcases.append(srcs)
        hmeta.append((units, pwant, undefined))
    t0 = time.time()
    hres = run_cases(ck, hcases, prelude=SWEEP_PRELUDE + "\n;;;;\n" + HIST_PRELUDE, fresh=True, batch=8, stall=90, mem_gb=4, nproc=8)
    ck.log("histories: %d histories, %d units in %.0fs" % (len(hcases), sum(len(c) for c in hcases), time.time() - t0))
    hf = {}
    for (units, pwant, undefined), srcs, r in zip(hmeta, hcases, hres):
        base = {"search": "history", "units": srcs, "expect_probe": pwant}
        poisoned = False
        for idx, ((shape, src, exp), o) in enumerate(zip(units, r)):
            o = o or {"missing": 1}
            k = kind_of_outcome(o)
            count("history", o)
            distinct.add(("h", shape, k))
            if k in ("panic", "crash", "hang", "missing"):
                d = dict(base, outcome=k, unit_index=idx, unit_shape=shape, unit=src)
                d.update({kk: v for kk, v in o.items() if kk in ("panic", "crash", "stderr")})
                hf.setdefault((shape, k), d)
                poisoned = True     # the worker rebuilt its engine: the reference no longer applies
                break
            if exp.startswith("value:"):
                if not (k == "ok" and (o.get("ok") or [""])[-1] == exp[6:]):
                    hf.setdefault((shape,), dict(base, outcome="definition-lost-after-failed-redefinition", unit_index=idx,
                                                 unit_shape=shape, unit=src, want=exp[6:], got=o))
            elif exp != "any" and k != exp:
                hf.setdefault((shape, "expected-" + exp), dict(base, outcome="wrong-" + k, unit_index=idx, unit_shape=shape, unit=src, got=o))
        if poisoned:
            continue
        n = len(units)
        po = r[n] or {"missing": 1}
        got = (po.get("ok") or ["<%s>" % kind_of_outcome(po)])[-1]
        if got != pwant:
            hf.setdefault(("probe",), dict(base, outcome="definitions-not-intact", got=po, unit_shape="probe"))
        so = r[n + 1] or {"missing": 1}
        if (so.get("ok") or [""])[-1] != "(I0 I0)":
            hf.setdefault(("residue",), dict(base, outcome="stack-residue", got=so, unit_shape="stack-probe"))
        for name, uo in zip(undefined, r[n + 2:]):
            if kind_of_outcome(uo or {}) != "err":
                hf.setdefault(("undefined",), dict(base, outcome="unbound-name-has-value", name=name, got=uo, unit_shape="undefined-probe"))
    for key, d in sorted(hf.items(), key=lambda kv: str(kv[0])):
        ck.failing_input("history: %s at unit %s (%s)" % (d["outcome"], d.get("unit_index", "probe"), d.get("unit_shape")), d, tag="history")
    if hcases:
        ck.sample({"history_units": hcases[0][:6], "expected_probe": hmeta[0][1]})
    if jcases:
        ck.sample({"jit_case": jcases[0]})
    ck.sample({"builtin_call": cases[len(cases) // 2][1], "outcome": res[len(cases) // 2][1]})
    ck.sample({"source_text": texts[len(texts) // 3][1][:200], "outcome": sres[len(texts) // 3][0]})

    ck.cov["distinct_nontrivial"] = len(distinct)
    ck.cov["rule"] = ("distinct = distinct (search, built-in | JIT form | source kind | history unit shape, argument value-kind tuple, "
                      "outcome class); every case exercises an error path or a boundary magnitude by construction (argument grid of %d "
                      "pool values over %d value kinds; wrong arity 0..4)" % (len(POOL), len(set(p[0] for p in POOL))))
    ck.cov["outcome_histogram"] = hist
    ck.cov["pool_size"] = len(POOL)
    ck.cov["failing_inputs_found"] = len(dump)
    if os.environ.get("C07_DUMP"):
        json.dump(dump, open(os.environ["C07_DUMP"], "w"), indent=1, default=str)
    if not proved and not ck.violations:
        ck.unproved()


# --------------------------------------------------------------------------------------------------
# correspondence model <-> engine on the unwinding loops: frame / operand stack depth at handler entry
# --------------------------------------------------------------------------------------------------
COQ_HEADER = """From Coq Require Import List Arith String.
From SV Require Import c07.Model_C07.
Import ListNotations.
Open Scope string_scope.
Definition c07_show (n : nat) : string :=
  match n with 0 => "0" | 1 => "1" | 2 => "2" | 3 => "3" | 4 => "4" | 5 => "5" | _ => "many" end.
Definition c07_delta (pre post : list op) : string :=
  match run pre (mkSt [] [] 1 [] []) with
  | Running s0 =>
      match run post s0 with
      | Running s1 => c07_show (List.length (frames s1) - List.length (frames s0)) ++ "," ++
                      c07_show (List.length (stack s1) - List.length (stack s0)) ++ "," ++ c07_show (List.length (ctxs s1))
      | Failed _ _ => "failed" | Done _ _ => "done" | Panic => "panic"
      end
  | _ => "pre-not-running"
  end.
"""


def unwind_case(rng):
    """(steel units, coq expr): a handler installed under k_below plain calls (or directly at top level), an error raised
    k_above calls above it, optionally through a nested run (transducer callback) at position `nested`."""
    k_below = rng.choice([-1, 0, 1, 2, 3])      # -1: call-with-exception-handler directly in the top-level expression
    k_above = rng.choice([0, 1, 2, 3])
    nested = rng.choice([None, None] + list(range(k_above + 1)))
    defs = ["(define c07-d-thunk #f) (define c07-d-handler #f)"]
    # above chain a0 .. a_k ; a_k raises
    for j in range(k_above, -1, -1):
        body = "(error \"c07-unwind\")" if j == k_above else "(+ 1 (c07-a%d))" % (j + 1)
        if nested == j:
            body = "(+ 1 (car (transduce (list 1) (mapping (lambda (x) %s)) (into-list))))" % body
        defs.append("(define (c07-a%d) %s)" % (j, body))
    cweh = ("(call-with-exception-handler (lambda (e) (set! c07-d-handler (#%verif-stack-depth)) 0) "
            "(lambda () (set! c07-d-thunk (#%verif-stack-depth)) (+ 1 (c07-a0))))")
    if k_below < 0:
        top = "(+ 1 %s)" % cweh
    else:
        defs.append("(define (c07-h) %s)" % cweh)
        prev = "c07-h"
        for i in range(k_below):
            defs.append("(define (c07-b%d) (+ 1 (%s)))" % (i, prev))
            prev = "c07-b%d" % i
        top = "(+ 1 (%s))" % prev
    units = [" ".join(defs), "(begin %s (list c07-d-thunk c07-d-handler))" % top]
    pre = []
    if k_below >= 0:
        for i in range(k_below + 1):
            pre += ["OPush 1", "OCall [] None"]
    else:
        pre += ["OPush 1"]
    pre += ["OCall [] (Some 7)"]
    post = ["OPush 1", "OCall [] None"]          # a0
    for j in range(k_above + 1):
        if nested == j:
            post += ["OPush 1", "ONested", "OPush 1"]
        if j < k_above:
            post += ["OPush 1", "OCall [] None"]
    post += ["ORaise 42"]
    expr = "c07_delta [%s] [%s]" % ("; ".join(pre), "; ".join(post))
    return {"k_below": k_below, "k_above": k_above, "nested": nested, "units": units}, expr


def model_correspondence(ck, n):
    cases = [unwind_case(ck.rng) for _ in range(n)]
    model = ck.coq_eval(COQ_HEADER, [e for _, e in cases])
    res = run_cases(ck, [c["units"] for c, _ in cases], prelude="", env={"STEEL_JIT": "false"}, fresh=True, batch=10, stall=30)
    bad = 0
    for (c, _), m, r in zip(cases, model, res):
        o = r[1] or {"missing": 1}
        ck.cov["evaluations"] += 1
        got = "?"
        mm = re.match(r"\(\(I(\d+) I(\d+)\) \(I(\d+) I(\d+)\)\)", (o.get("ok") or [""])[-1])
        if mm:
            f0, s0, f1, s1 = map(int, mm.groups())
            got = "%d,%d" % (f1 - f0, s1 - s0)
        want = ",".join(m.split(",")[:2])
        if got != want or not m.endswith(",0"):
            bad += 1
            ck.violation("model/implementation correspondence broken on the unwinding loop: model (d frames, d operands, nested runs left) = %s, engine = %s"
                         % (m, got), {"case": dict(c, search="unwind", model=m, engine=o), "correspondence": "c07.Model_C07 raise/unwind vs vm.rs"},
                         no_input=True, tag="corr")
    ck.cov["unwind_correspondence_cases"] = len(cases)
    ck.cov["unwind_correspondence_disagreements"] = bad
    if cases:
        ck.sample({"unwind_case": cases[0][0], "model": model[0], "engine": res[0][1]})


def load_corpus():
    out = {}
    d = os.path.join(common.ROOT, "corpus", "c07")
    for p in sorted(glob_json(d)):
        try:
            c = json.load(open(p))
        except Exception:
            continue
        for item in c if isinstance(c, list) else [c]:
            out.setdefault(item.get("search", "source"), []).append(item)
    return out


def glob_json(d):
    import glob
    return glob.glob(os.path.join(d, "*.json"))


def replay(ck, path):
    obj = json.load(open(path))
    case = obj.get("case")
    if not case:
        print(json.dumps(obj, indent=1)[:4000])
        return
    ck.harness_build(["c07"])
    s = case.get("search")
    if s == "builtin":
        r = run_cases(ck, [[case["source"], PROBE]], prelude=SWEEP_PRELUDE, env={"STEEL_JIT": "false"})[0]
        print("source:", case["source"], "\noutcome:", r)
        o = r[0] or {"missing": 1}
        if kind_of_outcome(o) in ("panic", "crash", "hang", "missing"):
            d = dict(case, outcome=kind_of_outcome(o))
            if "panic" in o:
                d["panic"] = o["panic"]
                d["site_file"], d["site_msg"] = site_of(o["panic"])
            ck.failing_input("replay: built-in %s: %s" % (case["builtin"], kind_of_outcome(o)), d, tag="builtin")
    elif s in ("jit", "jit-off"):
        r = run_cases(ck, [case["units"]], prelude=SWEEP_PRELUDE, env={"STEEL_JIT": "true" if s == "jit" else "false"})[0]
        print("units:", case["units"], "\noutcome:", r)
        k = [kind_of_outcome(x or {"missing": 1}) for x in r]
        if any(x in ("panic", "crash", "hang", "missing") for x in k):
            ck.failing_input("replay: JIT %s on %s" % (case["form"], case["arg"]), dict(case, outcome=[x for x in k if x not in ("ok", "err")][0]), tag="jit")
    elif s == "source":
        if case.get("text_elided"):
            print("(text elided in the replay file: regenerate with deep_source)")
        r = run_cases(ck, [[case["text"], PROBE]], prelude=SWEEP_PRELUDE, fresh=True)[0]
        print("outcome:", r)
        o = r[0] or {"missing": 1}
        if kind_of_outcome(o) in ("panic", "crash", "hang", "missing"):
            ck.failing_input("replay: source text: %s" % kind_of_outcome(o), describe_source(case["text"], o, case.get("kind", "replay")), tag="source")
    elif s == "history":
        r = run_cases(ck, [case["units"]], prelude=SWEEP_PRELUDE + "\n;;;;\n" + HIST_PRELUDE, fresh=True, stall=60)[0]
        for u, o in zip(case["units"], r):
            print(u[:100], " => ", json.dumps(o)[:200])
        bad = [o for o in r if kind_of_outcome(o or {"missing": 1}) in ("panic", "crash", "hang", "missing")]
        if bad or case.get("outcome", "").startswith(("definitions", "stack", "unbound", "wrong")):
            ck.failing_input("replay: history %s" % case.get("outcome"), case, tag="history")
