"""Decidable classifiers for the known-finding classes of known_findings.json.

Each predicate takes (case, params) where `case` is the canonical description of a failing input
produced by the property's check, and returns True when the case belongs to the listed class.
"""
