"""C01 (passes) — the always-on AST rewriting passes: model coq/c01/Passes_*.v, theorems Properties_C01p.v
(constant evaluator: Passes_CEval_C01.v relation + simulation, Passes_CEvalFn_C01.v function-level theorems).

run_passes(ck) is called from checks/c01.py.  It
 (G) re-derives from the Rust source, on every run, which side conditions (guards) each modelled pass checks
     (coq/gen/Gen_C01p.v, `src_guards`); Properties_C01p.C01p_guards_match_source needs `src_guards = all_on`,
     the configuration every soundness theorem is about;
 (C) generates programs in the fragment and compares (a) the optimised AST the real compiler produces (harness
     binary passdump) with the model pipeline run inside Coq, modulo renaming of binders, and (b) the VALUE and the
     output of the program on the real engine with the reference evaluator of the model on the SOURCE program;
 and, when an obligation broke, runs the refutation witnesses on the real engine (failing-input search).
"""
import os
import re
import subprocess

from checks import common

HEADER = ("From Coq Require Import ZArith List String.\nFrom SV Require Import c01.Passes_Model_C01 gen.Gen_C01p.\n"
          "Import ListNotations.\nOpen Scope string_scope.\n")

GUARDS = ["flatten_checks_outer_rest", "flatten_checks_inner_rest", "flatten_checks_operand_ids",
          "plain_let_skips_short_calls", "plain_let_builds_const_list", "prune_if_quote_false_is_false",
          "consteval_checks_rest_is_used", "consteval_checks_surplus_operands", "consteval_emits_value",
          "consteval_checks_set_idents", "consteval_static_arity", "consteval_operands_outer_scope"]


# ----------------------------------------------------------------------------- (G) generated facts
def _squash(src):
    """Rust source without // comments and without any whitespace."""
    src = re.sub(r"//[^\n]*", "", src)
    return re.sub(r"\s+", "", src)


def _region(sq, start, end_markers, limit=12000):
    i = sq.find(_squash(start))
    if i < 0:
        return ""
    j = len(sq)
    for m in end_markers:
        k = sq.find(_squash(m), i + 10)
        if k > 0:
            j = min(j, k)
    return sq[i:min(j, i + limit)]


def source_guards():
    """Which side conditions does the source check?  A fragment that is not found makes the fact false."""
    an = _squash(common.repo_file("crates/steel-core/src/compiler/passes/analysis.rs"))
    op = _squash(common.repo_file("crates/steel-core/src/compiler/passes/opt.rs"))
    ce = _squash(common.repo_file("crates/steel-core/src/steel_vm/const_evaluation.rs"))
    fl = _region(an, "impl<'a> VisitorMutRefUnit for FlattenAnonymousFunctionCalls<'a>", ["struct FunctionCallCollector"])
    pl = _region(an, "pub fn replace_anonymous_function_calls_with_plain_lets", ["pub fn refresh_variables"])
    pr = _region(op, "fn expr_is_truthy", ["fn is_truthy(t"])
    vl = _region(ce, "fn visit_list(&mut self, l: crate::parser::ast::List)", ["fn visit_syntax_rules"], limit=40000)
    va = _region(ce, "fn visit_atom(&mut self, a: crate::parser::ast::Atom)", ["fn visit_list(&mut self"])
    has = lambda reg, frag: _squash(frag) in reg
    g = {}
    g["flatten_checks_outer_rest"] = (has(fl, "let outer_rest = function_a.rest;")
                                      and has(fl, "if all_dont_contain_references && !outer_rest {"))
    g["flatten_checks_inner_rest"] = has(fl, "inner_l.first_func_mut().filter(|f| !f.rest)")
    g["flatten_checks_operand_ids"] = (has(fl, ".all(|x| !ExprContainsIds::contains(self.analysis, &arg_ids, x));")
                                       and has(fl, "if all_dont_contain_references"))
    g["plain_let_skips_short_calls"] = has(pl, "if f.rest && l.args.len() - 1 < f.args.len().saturating_sub(1) { return false; }")
    g["plain_let_builds_const_list"] = (has(pl, 'remaining.insert(0, ExprKind::ident("#%prim.#%const-list"));')
                                        and has(pl, "args.push(ExprKind::List(List::new(remaining)));")
                                        and has(pl, "let mut remaining = args.split_off(arity);"))
    g["prune_if_quote_false_is_false"] = has(pr, "ExprKind::Quote(q) => match &q.expr { ExprKind::Atom(Atom { syn, .. }) => "
                                                 "{ !matches!(syn.ty, TokenType::BooleanLiteral(false)) } _ => true, },")
    g["consteval_checks_rest_is_used"] = (has(vl, "let rest_is_used = l.rest && l.args .last() .and_then(|x| x.atom_identifier()) "
                                                  ".map(|id| self.bindings.borrow().used_bindings.contains(id)) .unwrap_or(false);")
                                          and has(vl, "&& !self.scope_contains_define && !rest_is_used {"))
    g["consteval_checks_surplus_operands"] = has(vl, "if l.rest { for (index, arg) in args.iter().enumerate().skip(l.args.len()) { "
                                                     "if !constant_operands[index] { non_constant_arguments.push(arg); } } }")
    g["consteval_emits_value"] = (has(vl, "non_constant_arguments.push(value_expr);")
                                  and not has(vl, "non_constant_arguments.push(output"))
    g["consteval_checks_set_idents"] = has(va, "if self.set_idents.get(s).is_some() || self.expr_level_set_idents.contains(s) { "
                                               "self.bindings.borrow_mut().unbind(s); return Ok(ExprKind::Atom(a)); };")
    g["consteval_static_arity"] = (has(vl, "if l.args.len() != args.len() && !l.rest {")
                                   and has(vl, "if !f.rest { if !f.args.is_empty() { stop!(ArityMismatch =>")
                                   and has(vl, "stop!(ArityMismatch => m; l.location.span);")
                                   and has(vl, "if l.rest && args.len() < l.args.len().saturating_sub(1) {"))
    vt = _region(ce, "fn visit_let(&mut self, mut l: Box<crate::parser::ast::Let>)", ["fn visit_vector"], limit=40000)
    decided_outside = ("let constant_operands: Vec<bool> = args .iter() .map(|x| self.to_constant(x).is_some()) .collect(); "
                       "let parent = Rc::clone(&self.bindings); self.bindings = Rc::new(RefCell::new(new_env));")
    g["consteval_operands_outer_scope"] = (has(vl, decided_outside) and has(vt, decided_outside)
                                           and has(vl, "} else if !constant_operands[index] { non_constant_arguments.push(arg); }")
                                           and has(vl, "for (index, arg) in args.iter().enumerate().skip(l.args.len()) { if !constant_operands[index] {")
                                           and has(vl, ".zip(constant_operands.iter()) .filter(|x| !*x.1)")
                                           and has(vt, "} else if !constant_operands[index] {")
                                           and not has(vl, "self.to_constant(arg).is_none()")
                                           and not has(vt, "self.to_constant(arg).is_none()"))
    return g


def gen_text(g):
    lines = ["(* GENERATED by checks/c01_passes.py from crates/steel-core/src/compiler/passes/{analysis,opt}.rs and",
             "   crates/steel-core/src/steel_vm/const_evaluation.rs: which side conditions the modelled passes check. *)",
             "From SV Require Import c01.Passes_Model_C01.", "",
             "Definition src_guards : guards :=", "  {| " + ";\n     ".join("%s := %s" % (k, "true" if g[k] else "false") for k in GUARDS) + " |}.", ""]
    return "\n".join(lines)


# ----------------------------------------------------------------------------- program generator
class G:
    """Programs of the fragment, as python trees:
       ('num',n) ('bool',b) ('quote',datum) ('var',x) ('lam',ps,rest,body) ('app',f,[args]) ('if',c,t,e)
       ('begin',[es]) ('prim',op,[args]) ('setp', x, e1, e2): ((lambda (x) (begin (set! x e2) x)) e1)"""

    def __init__(self, rng):
        self.r = rng
        self.n = 0

    def fresh(self, b):
        self.n += 1
        return "%s%d" % (b, self.n)

    def const(self):
        r = self.r
        k = r.random()
        if k < 0.7:
            return ("num", r.randint(0, 9))
        if k < 0.8:
            return ("bool", r.random() < 0.5)
        if k < 0.9:
            return ("quote", [r.randint(0, 9) for _ in range(r.randint(0, 2))])
        return ("quote", r.choice([False, True, 5]))

    @staticmethod
    def numeric(t):
        return t[0] == "num"

    def effect(self, e):
        return ("begin", [("prim", "display", [("num", self.r.randint(1, 9))]), e])

    def operand(self, d, env):
        """An operand: constant, or not (variable / call of the procedure parameter / with an effect)."""
        r = self.r
        k = r.random()
        if k < 0.4:
            return self.const()
        if k < 0.55:
            return self.effect(self.expr(d - 1, env))
        return self.expr(d - 1, env)

    def test(self, d, env):
        r = self.r
        k = r.random()
        if k < 0.6:
            return r.choice([("bool", True), ("bool", False), ("quote", False), ("quote", True), ("num", 0),
                             ("quote", []), ("quote", [1]), ("quote", 3)])
        vs = [x for x in env]
        if vs and k < 0.85:
            return ("var", r.choice(vs))
        return self.expr(d - 1, env)

    def expr(self, d, env, tail=False):
        """env: the variables that hold numbers.  Only numbers reach `+` and the procedure parameter (a type error
        inside natively compiled code is a separate, JIT-specific, open defect: see the report); lists and booleans
        are bound to parameters, tested, and returned in tail position."""
        r = self.r
        k = r.random()
        vs = [x for x in env]
        if d <= 0 or k < 0.12:
            if vs and r.random() < 0.65:
                return ("var", r.choice(vs))
            return ("num", r.randint(0, 9))
        if k < 0.24:
            # `+` is a global the constant evaluator knows nothing about; `#%prim.+` is the same procedure under the name
            # it folds calls of (constant = true) when both operands are constants
            return ("prim", "+" if r.random() < 0.6 else "#%prim.+", [self.expr(d - 1, env), self.expr(d - 1, env)])
        if k < 0.31:
            return ("app", ("var", "y"), [self.expr(d - 1, env), self.expr(d - 1, env)])
        if k < 0.36:
            return ("app", ("var", "w"), [])
        if k < 0.42:
            return self.effect(self.expr(d - 1, env))
        if k < 0.54:
            return ("if", self.test(d, env), self.expr(d - 1, env, tail), self.expr(d - 1, env, tail))
        if k < 0.57:
            x = self.fresh("s")
            # the assigned value does not read the assigned variable (see the report: reading it from a thunk applied
            # on the spot is a separate open defect of the boxing analysis)
            return ("setp", x, self.operand(d, env), self.expr(d - 1, env))
        # an applied lambda
        rest = r.random() < 0.4
        nfix = r.choice([0, 1, 1, 2, 2, 3])
        ps = [self.fresh("p") for _ in range(nfix)]
        if rest:
            ps.append(self.fresh("r"))
            nargs = nfix + r.choice([0, 0, 1, 2, 3])
            if r.random() < 0.06 and nfix > 0:
                nargs = nfix - 1                      # short call: static ArityMismatch
        else:
            nargs = nfix
            if r.random() < 0.04:
                nargs = nfix + 1                      # static ArityMismatch
        args = [self.operand(d, env) for _ in range(nargs)]
        # a parameter may have the name of a variable of an enclosing scope (the operands are in the OUTER scope and may
        # name that variable: the shape of defect e50bef37)
        if nfix > 0 and env and r.random() < 0.2:
            i, sh = r.randrange(nfix), r.choice(env)
            ps[i] = sh
            if nargs >= 2 and i < nargs and r.random() < 0.6:
                j = r.choice([k for k in range(nargs) if k != i])
                args[j] = ("var", sh)                   # an operand names the shadowed outer variable ...
                if r.random() < 0.7:
                    args[i] = self.const()              # ... while the parameter of that name is bound to a constant
        # numeric parameters may be mentioned (sometimes a parameter is never mentioned)
        fixed = ps[:-1] if rest else ps
        env2 = [v for v in env if v not in ps] + [p for p, a in zip(fixed, args)
                                                  if (self.numeric(a) or a[0] not in ("bool", "quote")) and r.random() < 0.8]
        if rest and tail and r.random() < 0.45:
            return ("app", ("lam", ps, rest, ("var", ps[-1]) if r.random() < 0.6 else
                            ("begin", [("prim", "display", [("num", r.randint(1, 9))]), ("var", ps[-1])])), args)
        if r.random() < 0.35:
            # the body is itself an applied lambda (what flattening looks for)
            nb = r.choice([1, 1, 2])
            rest_b = r.random() < 0.2
            qs = [self.fresh("q") for _ in range(nb)]
            if rest_b:
                qs.append(self.fresh("r"))
            ys = [self.operand(d - 1, env2 if r.random() < 0.5 else env) for _ in range(nb + (r.choice([0, 1, 2]) if rest_b else 0))]
            qfix = qs[:-1] if rest_b else qs
            envq = env2 + [q for q, a in zip(qfix, ys) if a[0] not in ("bool", "quote")]
            body = ("app", ("lam", qs, rest_b, self.expr(d - 1, envq, tail)), ys)
        else:
            body = self.expr(d - 1, env2, tail)
        return ("app", ("lam", ps, rest, body), args)

    def program(self):
        return self.expr(self.r.choice([2, 3, 3, 4]), ["z"], tail=True)


def contains(t, tag):
    if isinstance(t, tuple):
        if t and t[0] == tag:
            return True
        return any(contains(x, tag) for x in t[1:])
    if isinstance(t, list):
        return any(contains(x, tag) for x in t)
    return False


def datum_steel(d):
    if isinstance(d, bool):
        return "#t" if d else "#f"
    if isinstance(d, int):
        return str(d)
    return "(" + " ".join(datum_steel(x) for x in d) + ")"


def to_steel(t):
    k = t[0]
    if k == "num":
        return str(t[1])
    if k == "bool":
        return "#t" if t[1] else "#f"
    if k == "quote":
        return "'" + datum_steel(t[1])
    if k == "var":
        return t[1]
    if k == "lam":
        ps, rest = t[1], t[2]
        if rest:
            plist = "(" + " ".join(ps[:-1]) + " . " + ps[-1] + ")" if len(ps) > 1 else ps[-1]
        else:
            plist = "(" + " ".join(ps) + ")"
        return "(lambda %s %s)" % (plist, to_steel(t[3]))
    if k == "app":
        return "(" + " ".join([to_steel(t[1])] + [to_steel(a) for a in t[2]]) + ")"
    if k == "if":
        return "(if %s %s %s)" % (to_steel(t[1]), to_steel(t[2]), to_steel(t[3]))
    if k == "begin":
        return "(begin " + " ".join(to_steel(a) for a in t[1]) + ")"
    if k == "prim":
        return "(" + " ".join([t[1]] + [to_steel(a) for a in t[2]]) + ")"
    if k == "setp":
        return "((lambda (%s) (begin (set! %s %s) %s)) %s)" % (t[1], t[1], to_steel(t[3]), t[1], to_steel(t[2]))
    raise ValueError(k)


def datum_coq(d):
    if isinstance(d, bool):
        return "(DBool %s)" % ("true" if d else "false")
    if isinstance(d, int):
        return "(DNum %d)" % d
    out = "DNil"
    for x in reversed(d):
        out = "(DCons %s %s)" % (datum_coq(x), out)
    return out


def exps_coq(l, bound, ast=False):
    out = "ENil"
    for a in reversed(l):
        out = "(ECons %s %s)" % (to_coq(a, bound, ast), out)
    return out


def strs(l):
    return "[" + "; ".join('"%s"' % x for x in l) + "]"


def to_coq(t, bound, ast=False):
    """The model term.  `setp` ((lambda (x) (begin (set! x e2) x)) e1):
       * ast=False (reference VALUE): its assignment-free twin ((lambda (x) ((lambda (x') x') e2)) e1);
       * ast=True (what the PASSES see): the assigned identifier is in set_idents, which the model writes SetG / Glob
         (Passes_Model_C01.v, [cmark]): (Call (Lam [x] (Begin [SetG x e2; Glob x])) [e1])."""
    k = t[0]
    if k == "num":
        return "(Num %d)" % t[1]
    if k == "bool":
        return "(Bool_ %s)" % ("true" if t[1] else "false")
    if k == "quote":
        return "(Quote %s)" % datum_coq(t[1])
    if k == "var":
        return '(Loc "%s")' % t[1] if t[1] in bound else '(Glob "%s")' % t[1]
    if k == "lam":
        return "(Lam %s %s %s)" % (strs(t[1]), "true" if t[2] else "false", to_coq(t[3], bound | set(t[1]), ast))
    if k == "app":
        return "(Call %s %s)" % (to_coq(t[1], bound, ast), exps_coq(t[2], bound, ast))
    if k == "if":
        return "(If %s %s %s)" % (to_coq(t[1], bound, ast), to_coq(t[2], bound, ast), to_coq(t[3], bound, ast))
    if k == "begin":
        return "(Begin %s)" % exps_coq(t[1], bound, ast)
    if k == "prim":
        op = {"+": "PAdd", "display": "PDisplay", "const-list": "PConstList", "#%prim.+": "PAddC"}[t[1]]
        return "(Prim %s %s)" % (op, exps_coq(t[2], bound, ast))
    if k == "setp" and ast:
        x = t[1]
        body = '(Begin (ECons (SetG "%s" %s) (ECons (Glob "%s") ENil)))' % (x, to_coq(t[3], bound | {x}, ast), x)
        return '(Call (Lam ["%s"] false %s) (ECons %s ENil))' % (x, body, to_coq(t[2], bound, ast))
    if k == "setp":
        x = t[1]
        inner = '(Call (Lam ["%s_"] false (Loc "%s_")) (ECons %s ENil))' % (x, x, to_coq(t[3], bound | {x}))
        return '(Call (Lam ["%s"] false %s) (ECons %s ENil))' % (x, inner, to_coq(t[2], bound))
    raise ValueError(k)


PARAMS = ["y", "w", "z"]
ACTUALS_STEEL = "(lambda (u v) (+ u v)) (lambda () (begin (display 9) 7)) 3"
ACTUALS_COQ = ('(ECons (Lam ["u"; "v"] false (Prim PAdd (ECons (Loc "u") (ECons (Loc "v") ENil)))) '
               '(ECons (Lam [] false (Begin (ECons (Prim PDisplay (ECons (Num 9) ENil)) (ECons (Num 7) ENil)))) '
               '(ECons (Num 3) ENil)))')


# ----------------------------------------------------------------------------- s-expressions, canonical ASTs
def sx_parse(s):
    toks = re.findall(r"\(|\)|[^\s()]+", s)
    pos = [0]

    def rd():
        t = toks[pos[0]]
        pos[0] += 1
        if t == "(":
            out = []
            while toks[pos[0]] != ")":
                out.append(rd())
            pos[0] += 1
            return out
        return t
    out = []
    while pos[0] < len(toks):
        out.append(rd())
    return out


def canon_datum(x):
    if isinstance(x, list):
        # the model prints lists as dotted pairs: (a . (b . ()))
        if len(x) == 3 and x[1] == ".":
            return [canon_datum(x[0])] + canon_datum(x[2])
        return [canon_datum(y) for y in x]
    if x in ("#t", "#true"):
        return True
    if x in ("#f", "#false"):
        return False
    return x


class Canon:
    """Alpha-normalising reader shared by the engine's and the model's printed ASTs."""

    def __init__(self):
        self.k = 0

    def bind(self, names, env):
        env = dict(env)
        for n in names:
            self.k += 1
            env[n] = "v%d" % self.k
        return env

    def go(self, x, env):
        if isinstance(x, str):
            if x in ("#t", "#true"):
                return ("bool", True)
            if x in ("#f", "#false"):
                return ("bool", False)
            if re.fullmatch(r"-?\d+", x):
                return ("num", int(x))
            return ("var", env.get(x, re.sub(r"^#%prim\.", "", x)))
        if not x:
            return ("nil",)
        h = x[0]
        if h == "quote":
            return ("quote", canon_datum(x[1]))
        if h in ("lambda", "lambda*", "λ"):
            env2 = self.bind(x[1], env)
            return ("lam", len(x[1]), self.go(x[2], env2))
        if h == "%plain-let":
            rhs = [self.go(b[1], env) for b in x[1]]
            env2 = self.bind([b[0] for b in x[1]], env)
            return ("let", rhs, self.go(x[2], env2))
        if h == "let":          # the model's printer: (let (x..) ( e.. ) body)
            rhs = [self.go(e, env) for e in x[2]]
            env2 = self.bind(x[1], env)
            return ("let", rhs, self.go(x[3], env2))
        if h == "if":
            return ("if", self.go(x[1], env), self.go(x[2], env), self.go(x[3], env))
        if h == "begin":
            # nested begins are spliced (flatten_begins_and_expand_defines, compiler.rs L1205/L1265: not modelled,
            # (begin a (begin b c)) and (begin a b c) are the same sequence)
            out = []
            for e in x[1:]:
                c = self.go(e, env)
                if c[0] == "begin":
                    out.extend(c[1])
                else:
                    out.append(c)
            return ("begin", out)
        if h == "set!":
            return ("set", self.go(x[1], env), self.go(x[2], env))
        if isinstance(h, str):
            if h == "#%prim.+":
                return ("prim", h, [self.go(e, env) for e in x[1:]])
            hh = re.sub(r"^#%prim\.", "", h)
            if hh in ("#%const-list", "const-list"):
                return ("prim", "const-list", [self.go(e, env) for e in x[1:]])
            if hh in ("+", "display") and hh not in env:
                return ("prim", hh, [self.go(e, env) for e in x[1:]])
        return ("app", self.go(h, env), [self.go(e, env) for e in x[1:]])


def canon_ast(text):
    sx = sx_parse(text)
    return Canon().go(sx[0], {})


def engine_value(res):
    """('OK', value, out) / ('ERR', kind, out) from evalsrv outcomes of [define; call]."""
    out = ""
    last = None
    for r in res:
        if "out" in r:
            out = r["out"]
        else:
            last = r
    if last is None:
        return ("CRASH", "", out)
    if "ok" in last:
        vals = last["ok"]
        return ("OK", vals[-1] if vals else "#<void>", out)
    if "err" in last:
        return ("ERR", last["err"], out)
    return ("CRASH", str(last)[:80], out)


def canon_engine_val(v):
    """evalsrv canonical value -> the model's val_str."""
    sx = sx_parse(v)[0] if v else ""

    def go(x):
        if isinstance(x, list):
            out = "()"
            for y in reversed(x):
                out = "(%s . %s)" % (go(y), out)
            return out
        if re.fullmatch(r"I-?\d+", x):
            return x[1:]
        return x
    return go(sx)


# ----------------------------------------------------------------------------- the check
WITNESSES = [
    # (name, steel source, expected value, expected output): the refutation witnesses of Passes_Proofs_C01.v
    ("F40 flatten across an outer rest parameter", "((lambda (p . r) ((lambda (c) c) 5)) 1)", "5", ""),
    ("flatten across an inner rest parameter", "((lambda (a) ((lambda (b . c) c) 1 2)) 0)", "(2 . ())", ""),
    ("flatten with an operand mentioning an outer parameter", "(define (f k) ((lambda (a) ((lambda (b) b) a)) k)) (f 1)", "1", ""),
    ("%plain-let without the const-list", "(define (f k) ((lambda (a . r) r) k 2 3)) (f 1)", "(2 . (3 . ()))", ""),
    ("F25 (quote #f) as a test", "(define (f k) (if '#f 1 k)) (f 2)", "2", ""),
    ("F37 unused-looking rest parameter without operands", "(define (f k) ((lambda r r))) (f 1)", "()", ""),
    ("F37b rest parameter used, constant fixed operand", "((lambda (a . r) r) 1)", "()", ""),
    ("F27 constant body value with a non-constant operand", "((lambda (a b) a) '(1 2) (display 1))", "(1 . (2 . ()))", "1"),
    ("F41 non-constant later surplus operand", "(define (f k) ((lambda (a . r) (car r)) 1 2 k)) (f 5)", "2", ""),
    ("F41b effect in a later surplus operand", "((lambda (a . r) 1) 1 2 (begin (display 7) 3))", "1", "7"),
    ("set! of a parameter bound to a constant", "((lambda (a) (begin (set! a 2) a)) 1)", "2", ""),
    # e50bef37: operands were judged in the scope of the applied lambda / let
    ("operand naming an outer variable shadowed by a constant parameter", "(define (f x) ((lambda (x y) y) 5 x)) (f 7)", "7", ""),
    ("let right-hand side naming an outer variable shadowed by a constant binder", "(define (f x) (let ((x 5) (y x)) y)) (f 7)", "7", ""),
    ("shadowed operand with an effect in the body", "(define (f x) ((lambda (x y) (begin (display y) x)) 5 x)) (f 7)", "5", "7"),
    ("duplicate parameter, constant first", "(define (f k) ((lambda (a a) a) 1 k)) (f 7)", "7", ""),
    ("duplicate parameter, constant last", "(define (f k) ((lambda (a a) a) k 1)) (f 7)", "1", ""),
    ("duplicate let binder", "(define (f k) (let ((a 1) (a k)) a)) (f 7)", "7", ""),
    # 5b062f5b: a constant vector was put back as a quoted LIST; a constant improper pair stopped the compilation
    ("constant vector operand returned", "(define (f k) (vector? ((lambda (x y) x) '#(1 2) k))) (f 0)", "#t", ""),
    ("constant vector from a folded primitive", "(define (f) (vector? (#%prim.push 1 2))) (f)", "#t", ""),
    ("constant improper pair returned", "(define (f k) (car ((lambda (x y) x) '(1 . 2) (display 3)))) (f 0)", "1", "3"),
    # a keyword as a test was decided FALSE (is_constant said constant, is_truthy_constant said not truthy)
    ("keyword as a test", "(define (f k) (if #:kw 1 k)) (f 2)", "1", ""),
    # the remembered operand list of a const-list binding was used although the variable is assigned
    ("length of an assigned rest parameter", "(define (f k) ((lambda (a . r) (begin (set! r '()) (#%prim.length r))) 1 k k)) (f 2)", "0", ""),
    # effects of the non-constant operands keep their order in (begin operands.. 'value)
    ("begin result keeps the order of effects", "(define (f k) ((lambda (x y z) 5) (display 1) 2 (display 3))) (f 2)", "5", "13"),
]


def run_witnesses(ck):
    """The refutation witnesses on the real engine; returns the failing ones (engine really misbehaves)."""
    bad = []
    for jit in ("true", "false"):
        res = ck.eval_cases([[src] for _, src, _, _ in WITNESSES], fresh=True, env={"STEEL_JIT": jit}, timeout_per_batch=60)
        for (name, src, val, out), r in zip(WITNESSES, res):
            kind, v, o = engine_value(r)
            got = canon_engine_val(v) if kind == "OK" else kind + " " + v
            ck.cov["evaluations"] += 1
            if got != val or o != out:
                bad.append({"witness": name, "program": src, "engine": "%s OUT %s" % (got, o),
                            "reference": "%s OUT %s" % (val, out), "jit": jit})
    return bad


def run_passes(ck):
    quick = ck.tier == "quick"
    ck.cov["trusted_base"].append(
        "passes: checks/c01_passes.py (guard extraction by source fragments, program generator, printers, alpha-normalising reader), "
        "harness passdump (Engine::emit_fully_expanded_ast); coq/c01/Passes_Model_C01.v is a hand-written mirror of the cited Rust lines; "
        "proved meaning preserving: flatten, plain_let, prune_if, ceval (constant evaluator: propagation, scope / binding dropping, "
        "(begin operands.. 'value), folding of #%prim.+); modelled for the AST correspondence only (no theorem): uniq "
        "(RenameShadowedVariables), rlets (RemoveLetsBoundToOtherLocalVars), the Glob/SetG writing of assigned parameters; "
        "not modelled: define in a body, const-list length folding, folding of the other `constant = true` primitives, "
        "vector / pair / keyword constants (engine-level regression witnesses only)")
    # (G) generated facts
    try:
        g = source_guards()
    except common.TieBroken as ex:
        ck.violation("passes: source of a modelled pass not found: %s" % ex, {"tie": str(ex)}, no_input=True, tag="passes-tie")
        return
    ck.translate("Gen_C01p", gen_text(g))
    ck.cov["pass_guards"] = g
    missing = [k for k in GUARDS if not g[k]]
    proved = ck.proof_stage(["c01"], ["c01/Properties_C01p"], "c01/Pins_C01p.v")
    ck.coq_make(["gen/Gen_C01p", "c01/Passes_Model_C01"])
    ck.harness_build(["evalsrv", "passdump"])

    # the witnesses always run: they are the regression corpus of the four defects found with this model
    bad = run_witnesses(ck)
    for b in bad[:6]:
        ck.failing_input("passes: a pass changes the meaning of %s" % b["witness"], b, tag="passes-wit")

    # (C) generated programs
    gen = G(ck.rng)
    n = 140 if quick else 2500
    progs = [gen.program() for _ in range(n)]
    names = ["pf%d" % i for i in range(n)]
    defs = ["(define (%s %s) %s)" % (nm, " ".join(PARAMS), to_steel(p)) for nm, p in zip(names, progs)]
    # engine ASTs
    rc, out = ck.harness_run("passdump", stdin="\n".join(defs) + "\n", timeout=600)
    lines = [l for l in out.splitlines() if l.startswith("AST ") or l.startswith("ERR ")]
    if rc != 0 or len(lines) != n:
        ck.violation("passes: passdump failed (rc=%s, %d of %d lines)" % (rc, len(lines), n), {"out": out[-2000:]}, no_input=True, tag="passes-dump")
        return
    # engine values
    cases = [[d, "(%s %s)" % (nm, ACTUALS_STEEL)] for nm, d in zip(names, defs)]
    eng = ck.eval_cases(cases, fresh=True, batch=16, timeout_per_batch=90)
    # model: pipeline on (lambda (y w z) body) with the guards the SOURCE has; reference value of the source program
    bound = set(PARAMS)
    exprs = []
    for p in progs:
        lam = "(Lam %s false %s)" % (strs(PARAMS), to_coq(p, bound))
        lam_ast = "(Lam %s false %s)" % (strs(PARAMS), to_coq(p, bound, ast=True)) if contains(p, "setp") else lam
        exprs.append("(pipeline_str src_guards %s ++ (if static_arity (ceval src_guards %s) then \"\" else \" !SA\") ++ \" @@ \" ++ "
                     "render_res (eval 60 (ENone, []) ENone (Call %s %s)))%%string" % (lam_ast, lam_ast, lam, ACTUALS_COQ))
    mod = ck.coq_eval(HEADER, exprs, shard=20)
    st = {"compared_ast": 0, "agreed_ast": 0, "skipped_unmodelled": 0, "static_arity": 0, "compared_value": 0, "agreed_value": 0, "skipped_why": {}}
    distinct = set()
    for p, d, nm, line, e, m in zip(progs, defs, names, lines, eng, mod):
        ck.cov["evaluations"] += 1
        mast, _, mval = m.partition(" @@ ")
        if mast.endswith(" !SA"):
            mast = mast[:-4]
            if mast != "ARITY":
                ck.violation("passes: the model constant evaluator leaves an applied lambda with a wrong operand count "
                             "(hypothesis static_arity of the flatten / plain-let theorems)", {"program": d}, no_input=True, tag="passes-sa")
        case = {"program": d + " (%s %s)" % (nm, ACTUALS_STEEL)}
        kind, v, o = engine_value(e)
        if e and "err" in e[0]:
            kind, v = "ERR", e[0]["err"]          # the definition itself was rejected
        if mast == "ARITY":
            # a directly applied lambda with the wrong operand count is a COMPILE-time error (const_evaluation.rs L805-824)
            st["static_arity"] += 1
            if not (line.startswith("ERR") and "ArityMismatch" in line and kind == "ERR" and v == "ArityMismatch"):
                case.update({"engine_ast": line, "engine": "%s %s" % (kind, v), "model": "static ArityMismatch"})
                ck.failing_input("passes: operand count of an applied lambda is not rejected at compile time", case, tag="passes-arity")
            continue
        # ---- value (always)
        st["compared_value"] += 1
        if "FUEL" in mval:
            ck.violation("passes: reference evaluator out of fuel on a generated program", {"case": case}, no_input=True, tag="passes-fuel")
            continue
        if kind == "OK":
            ev = "OK %s OUT %s" % (canon_engine_val(v), " ".join(o))
        elif kind == "ERR":
            ev = "ERR OUT %s" % " ".join(o)
        else:
            ev = "CRASH %s" % v
        mv = mval.rstrip() if mval.endswith("OUT ") else mval
        ev = ev.rstrip() if ev.endswith("OUT ") else ev
        distinct.add(mv)
        if ev == mv:
            st["agreed_value"] += 1
        else:
            case.update({"engine": ev, "reference": mv, "engine_ast": line})
            off = ck.eval_cases([[d, "(%s %s)" % (nm, ACTUALS_STEEL)]], fresh=True, env={"STEEL_JIT": "false"}, timeout_per_batch=60)
            case["engine_jit_off"] = "%s %s OUT %s" % engine_value(off[0])
            ck.failing_input("passes: value/output of a generated program differs from the reference evaluator", case, tag="passes-val")
            continue
        # ---- AST
        why = None
        if not line.startswith("AST"):
            why = "engine rejected the program"
        elif "lifted" in line or "(define " in line[5:].replace("(define " + nm, "", 1):
            why = "a closed lambda lifted to a global (LiftPureFunctionsToGlobalScope, property C02)"
        elif "#%box" in line:
            why = "assigned variable captured by a lambda: boxed (assignment conversion, Properties_C01)"
        if why:
            st["skipped_unmodelled"] += 1
            st["skipped_why"][why] = st["skipped_why"].get(why, 0) + 1
            if os.environ.get("C01P_DEBUG"):
                print("SKIP", why, "\n   ", d, "\n   ", line[:300])
            continue
        try:
            east = canon_ast(line[4:])
            # (define f (lambda (y w z) body))
            east = east[2][1] if east[0] == "app" else east
            mcan = canon_ast(mast)
        except Exception as ex:      # an engine form the reader does not know
            st["skipped_unmodelled"] += 1
            st["skipped_why"]["reader"] = st["skipped_why"].get("reader", 0) + 1
            continue
        st["compared_ast"] += 1
        if east == mcan:
            st["agreed_ast"] += 1
        else:
            case.update({"engine_ast": line[4:], "model_ast": mast, "guards": g})
            # the value agreed: the engine's AST is meaning-preserving on this input as far as we can see; the MODEL
            # of the pipeline is not the pipeline that exists
            ck.violation("passes: the model pipeline and the real compiler produce different ASTs", {"case": case},
                         no_input=True, tag="passes-ast")
        if ck.cov["evaluations"] % 37 == 0:
            ck.sample({"pass_program": d, "engine_ast": line[4:], "model_ast": mast, "value": mv})
    ck.cov["passes"] = st
    ck.cov["passes_distinct_outcomes"] = len(distinct)
    ck.log("passes: %s" % st)
    tot = st["compared_ast"] + st["skipped_unmodelled"]
    if tot and st["skipped_unmodelled"] > 0.4 * tot:
        ck.violation("passes: too many generated programs outside the modelled pipeline (%d of %d)" % (st["skipped_unmodelled"], tot),
                     {"stats": st}, no_input=True, tag="passes-skip")
    if not proved and not ck.violations:
        what = ("guards missing in the source: %s; " % ", ".join(missing) if missing else "") + "; ".join(getattr(ck, "proof_failures", []))
        ck.violation("passes: proof obligation no longer checks: " + what[:3000], {"broken": what, "guards": g}, no_input=True, tag="passes-unproved")
