"""C02 — observable behaviour is independent of JIT and optimisation configuration (DESIGN.md C02)."""
import itertools
import json

from checks import common, lang, c01

SWITCHES = [("STEEL_JIT", None, "false"),                 # default (on) / off
            ("STEEL_INLINE", None, "1"),                  # unset / set
            ("STEEL_INLINE_RECURSIVE", None, "1"),
            ("STEEL_CLOSURE_LIFTING", None, "false"),     # default (on) / off
            ("STEEL_MODULE_INLINE", None, "1")]


def all_configs():
    out = []
    for bits in itertools.product([0, 1], repeat=len(SWITCHES)):
        env = {}
        for (name, a, b), bit in zip(SWITCHES, bits):
            v = b if bit else a
            if v is not None:
                env[name] = v
        out.append(env)
    return out


def cfg_name(env):
    return ",".join("%s=%s" % kv for kv in sorted(env.items())) or "default"


def shrink_history(ck, units, env):
    """Minimise a disagreeing history: drop whole units, then forms inside units."""
    def fails_h(cands):
        res = c01.compare(ck, cands, env=env)
        # never drift into the static free-identifier check (the engine does not report free identifiers in
        # code its optimiser removed; the generators never produce free identifiers)
        return [e != m and "FUEL" not in m and "HANG" not in e and "FreeIdentifier" not in m and "FreeIdentifier" not in e
                for e, m in res]
    units = [list(u) for u in units]
    try:
        changed = True
        rounds = 0
        while changed and rounds < 30:
            changed = False
            rounds += 1
            cands = [units[:i] + units[i + 1:] for i in range(len(units)) if len(units) > 1]
            cands += [units[:i] + [u[:j] + u[j + 1:]] + units[i + 1:] for i, u in enumerate(units) for j in range(len(u)) if len(u) > 1]
            if not cands:
                break
            res = fails_h(cands)
            for c, r in zip(cands, res):
                if r:
                    units = c
                    changed = True
                    break
    except Exception as ex:
        ck.log("shrink failed: %s" % ex)
    return units


def assigns_global_function(case, params):
    """Known-finding class C02-F28: the history assigns, with set!, a global that an earlier unit defined as
    a lambda (generator names f<N>); code compiled earlier had the old lambda inlined at its call sites."""
    import re
    txt = "\n".join(case.get("history", []))
    return re.search(r"\(set! f\d+ \(lambda", txt) is not None


def run(ck):
    ck.cov["trusted_base"] = [
        "Coq 8.16.1 kernel, coqc; vm_compute for model evaluation",
        "reference semantics coq/lib/Lang.v (configuration-free: the single meaning every configuration must produce)",
        "correspondence harness (evalsrv), renderers checks/lang.py",
    ]
    ck.assumptions = ["the switches are read from the process environment at compile / closure-creation time (compiler.rs, vm.rs); "
                      "each configuration runs in its own worker processes",
                      "native code generation itself (Cranelift output) is covered by differential execution only"]
    proved = ck.proof_stage(["c02"], ["c02/Properties_C02"], "c02/Pins_C02.v")
    ck.harness_build(["evalsrv"])
    g = lang.Gen(ck.rng)
    nh, np_ = (16, 24) if ck.tier == "quick" else (300, 500)
    items = [g.history() for _ in range(nh)] + [[g.program()] for _ in range(np_)]
    configs = all_configs()
    if ck.tier == "quick":
        base = [configs[0], {"STEEL_JIT": "false"}, configs[-1] if False else
                {"STEEL_INLINE": "1", "STEEL_INLINE_RECURSIVE": "1", "STEEL_MODULE_INLINE": "1"},
                {"STEEL_JIT": "false", "STEEL_CLOSURE_LIFTING": "false"}]
        extra = ck.rng.sample(configs, 1)
        chosen = base + [c for c in extra if c not in base]
    else:
        chosen = configs
    model = ck.coq_eval(lang.COQ_HEADER, [lang.model_expr(h) for h in items], shard=20)
    nontrivial = set()
    per_cfg = {}
    for env in chosen:
        cases = [[lang.unit_to_steel(u) for u in h] for h in items]
        eng = ck.eval_cases(cases, fresh=True, env=env, batch=10, timeout_per_batch=90)
        name = cfg_name(env)
        per_cfg[name] = 0
        for h, e_raw, m in zip(items, eng, model):
            e = c01.engine_render(e_raw)
            ck.cov["evaluations"] += 1
            if "FUEL" in m:
                continue
            nontrivial.add((m, name))
            per_cfg[name] += 1
            if e != m:
                small = shrink_history(ck, h, env)
                (e2, m2), = c01.compare(ck, [small], env=env)
                # is it configuration dependent? run the shrunk history under the default configuration too
                (e0, _), = c01.compare(ck, [small], env={})
                case = {"history": [lang.unit_to_steel(u) for u in small], "config": env, "engine": e2,
                        "engine_default_config": e0, "reference": m2}
                ck.failing_input("configuration %s: engine and reference differ (default configuration gives %s)"
                                 % (name, "the same" if e0 == e2 else "another result"), case, tag="cfg")
    for h, m in list(zip(items, model))[:3]:
        ck.sample({"history": [lang.unit_to_steel(u) for u in h][:3], "reference": m[:300]})
    ck.cov["distinct_nontrivial"] = len(nontrivial)
    ck.cov["configurations"] = [cfg_name(c) for c in chosen]
    ck.cov["compared_per_configuration"] = per_cfg
    ck.cov["rule"] = ("histories (3-8 units on one engine, with redefinition / set! of globals that earlier functions use) and "
                      "single-unit programs from checks/lang.py, each run under the listed configurations; distinct = distinct "
                      "(reference outcome, configuration); out-of-fuel references are skipped")
    ck.cov["construct_histogram"] = g.stats
    if not proved and not ck.violations:
        ck.unproved()


def replay(ck, path):
    obj = json.load(open(path))
    case = obj.get("case")
    if not case:
        print(json.dumps(obj, indent=1))
        return
    ck.harness_build(["evalsrv"])
    eng = ck.eval_cases([case["history"]], fresh=True, env=case.get("config") or {})
    e = c01.engine_render(eng[0])
    print("config:", case.get("config"), "\nengine:", e, "\nreference:", case["reference"])
    if e != case["reference"]:
        ck.failing_input("replay: engine and reference differ", case, tag="cfg")
