"""C02 — observable behaviour is independent of JIT and optimisation configuration (DESIGN.md C02)."""
import itertools
import json
import re

from checks import common, lang, c01

SWITCHES = [("STEEL_JIT", None, "false"),                 # default (on) / off
            ("STEEL_INLINE", None, "1"),                  # unset / set
            ("STEEL_INLINE_RECURSIVE", None, "1"),
            ("STEEL_CLOSURE_LIFTING", None, "false"),     # default (on) / off
            ("STEEL_MODULE_INLINE", None, "1")]


def all_configs():
    out = []
    for bits in itertools.product([0, 1], repeat=len(SWITCHES)):
        env = {}
        for (name, a, b), bit in zip(SWITCHES, bits):
            v = b if bit else a
            if v is not None:
                env[name] = v
        out.append(env)
    return out


def cfg_name(env):
    return ",".join("%s=%s" % kv for kv in sorted(env.items())) or "default"


def shrink_history(ck, units, env):
    """Minimise a disagreeing history: drop whole units, then forms inside units."""
    def fails_h(cands):
        res = c01.compare(ck, cands, env=env)
        # never drift into the static free-identifier check (the engine does not report free identifiers in
        # code its optimiser removed; the generators never produce free identifiers)
        return [e != m and "FUEL" not in m and "HANG" not in e and "FreeIdentifier" not in m and "FreeIdentifier" not in e
                for e, m in res]
    units = [list(u) for u in units]
    try:
        changed = True
        rounds = 0
        while changed and rounds < 30:
            changed = False
            rounds += 1
            cands = [units[:i] + units[i + 1:] for i in range(len(units)) if len(units) > 1]
            cands += [units[:i] + [u[:j] + u[j + 1:]] + units[i + 1:] for i, u in enumerate(units) for j in range(len(u)) if len(u) > 1]
            if not cands:
                break
            res = fails_h(cands)
            for c, r in zip(cands, res):
                if r:
                    units = c
                    changed = True
                    break
    except Exception as ex:
        ck.log("shrink failed: %s" % ex)
    return units


def assigns_global_function(case, params):
    """Known-finding class C02-F28: the history assigns, with set!, a global that an earlier unit defined as
    a lambda (generator names f<N>); code compiled earlier had the old lambda inlined at its call sites."""
    import re
    txt = "\n".join(case.get("history", []))
    return re.search(r"\(set! f\d+ \(lambda", txt) is not None


def sets_global(e, names):
    if isinstance(e, tuple):
        if e and e[0] == "set" and e[1] in names:
            return True
        return any(sets_global(x, names) for x in e[1:])
    if isinstance(e, list):
        return any(sets_global(x, names) for x in e)
    return False


def module_cases(ck, g, n):
    """Programs whose definitions live in a module file required by the main program (exercises cross-module
    inlining): the reference meaning is the same program with the definitions in the first unit."""
    import os
    out = []
    d = os.path.join(ck.work, "mods")
    os.makedirs(d, exist_ok=True)
    tries = 0
    pending = list(lang.MODULE_CORPUS)
    n += len(pending)
    while len(out) < n and tries < n * 6:
        tries += 1
        if pending:
            defs, exprs = pending.pop(0)
            forms = defs + exprs
        else:
            forms = g.program(nforms=ck.rng.choice([6, 10, 14]))
            defs = [f for f in forms if f[0] == "define"]
            exprs = [f for f in forms if f[0] != "define"]
        names = [f[1] for f in defs]
        if not defs or not exprs or sets_global(forms, set(names)):
            continue
        path = os.path.join(d, "m%d_%d.scm" % (ck.seed, len(out)))
        with open(path, "w") as fh:
            fh.write(lang.unit_to_steel(defs) + "\n(provide " + " ".join(names) + ")\n")
        engine_units = ['(require "%s")' % path] + [lang.to_steel(e) for e in exprs]
        reference = [defs] + [[e] for e in exprs]
        out.append((engine_units, reference))
    return out


SWEEP_FNS = """
(define (a1 x) (unbox x))
(define (a2 x) (set-box! x 1))
(define (a3 x) (sub1 x))
(define (a4 x) (add1 x))
(define (a5 x) (vector-ref x 0))
(define (a6 x) (list-ref x 0))
(define (a7 x) (not x))
(define (a8 x y) (< x y))
(define (a9 x) (zero? x))
(define (b1 x) (- x))
(define (b2 x) (* x 2))
(define (b3 x) (cons 1 x))
(define (b4 x) (cdr x))
(define (b5 x) (cadr x))
(define (b6 x) (vector-set! x 5 0))
(define (b7 x) (hash-ref x 1))
(define (b8 x) (string-length x))
(define (b9 x) (equal? x 1))
(define (c1 x) (length x))
(define (c2 x) (first x))
(define (c3 x y) (<= x y))
(define (c4 x y) (> x y))
(define (c5 x y) (>= x y))
(define (c6 x y) (= x y))
(define (c7 x) (< x 3))
(define (c8 x) (<= x 3))
(define (c9 x) (= x 3))
(define (d1 x) (/ 1 x))
(define (d2 x y) (/ x y))
(define (d3 x y) (* x y))
(define (d4 x y) (- x y))
(define (d5 x y) (+ x y))
(define (d6 x) (- x 1))
(define (d7 x) (+ x 1))
(define (d8 x) (car x))
(define (d9 x) (if (< x 3) 1 2))
(define (e1 x) (if (= x 3) 1 2))
(define (e2 x) (if (<= x 3) 1 2))
(define (e3 x) (let loop ((i 0) (acc 0)) (if (if (< i x) (< i 20) #f) (loop (+ i 1) (+ acc i)) acc)))
(define (e4 x) (if (null? x) 0 (+ 1 (e4 (cdr x)))))
(define (e5 x y) (+ x y 1))
(define (e6 x y) (- x y 1))
(define (e7 x y) (* x y 2))
(define (e8 x) (> x 3))
(define (e9 x) (>= x 3))
(define (f1 x) (with-handler (lambda (e) 'caught) (< x 3)))
(define (f2 x) (with-handler (lambda (e) 'caught) (- x 1)))
(define (f3 x) (with-handler (lambda (e) 'caught) (/ 1 x)))
(define (f4 x) (list #f (if x x (+ 1 1))))
(define (f5 x y) (list y (if (car x) (car x) (cdr x))))
(define (f6 x) (+ 1 (if (null? x) 0 (car x))))
(define (f7 x y) (let ((v (vector-ref x y))) (list v (vector-ref x 0))))
(define (f8 x) (let ((b (box x))) (set-box! b (car x)) (unbox b)))
(define (g1 x y) (eq? x y))
(define (g2 x) (pair? x))
(define (g3 x) (char=? x #\\a))
(define (g4 x) (begin (vector-set! x 0 9) (vector-ref x 0)))
(define (g5 x) (list (eof-object) x))
(define (g6 x) (if (pair? x) (car x) (if (eq? x 5) 'five x)))
(define (g7 x y) (vector-set! x y 1))
(define (g8 x) (list (list? x) (null? x) (vector? x) (string? x) (symbol? x) (number? x) (integer? x) (boolean? x)))
(define (g9 x) (equal? x x))
"""
SWEEP_VALS = ['"a"', "5", "0", "'()", "'(1 2)", "(vector 1)", "(box 3)", "2.5", "1/2", "#f", "'sym",
              "9223372036854775807", "-9223372036854775808", "18446744073709551616", "(list #f 2)", "#\\a", "(vector 1 2 3)", "(cons 1 2)"]


# n-ary arithmetic inside a module function (ADD / MUL / SUB with 3..5 operands compile to dedicated native helpers:
# extern_c_add_three / extern_c_add_four / ...): inexact addition is not associative, so the ORDER in which a helper
# combines its operands is observable (seeded change C10-3 summed (a+b)+(c+d))
NARY_FNS = """
(define (p3 a b c) (+ a b c))
(define (p4 a b c d) (+ a b c d))
(define (p5 a b c d e) (+ a b c d e))
(define (m3 a b c) (* a b c))
(define (m4 a b c d) (* a b c d))
(define (s3 a b c) (- a b c))
(define (s4 a b c d) (- a b c d))
(define (q4 a b c d) (+ a (* b c) d))
"""
NARY_VALS = ["1e308", "-1e308", "1.0", "1e16", "-1e16", "9007199254740992.0", "1", "-1", "0.1", "0.3", "1e-320", "1/3",
             "4611686018427387904", "-4611686018427387904", "9223372036854775807", "1e200", "1e-200", "3"]


def nary_sweep(ck, n=60):
    """-> number of differing calls; operand tuples drawn from magnitudes at which +, * are not associative"""
    import os
    fns = re.findall(r"\(define \((\w+)((?: \w)*)\)", NARY_FNS)
    d = os.path.join(ck.work, "mods")
    os.makedirs(d, exist_ok=True)
    path = os.path.join(d, "nary.scm")
    with open(path, "w") as fh:
        fh.write(NARY_FNS + "(provide " + " ".join(f for f, _ in fns) + ")\n")
    fixed = ["(p4 1e308 1e308 -1e308 -1e308)", "(p4 9007199254740992.0 1 1 1)", "(p4 1.0 1e16 -1e16 1.0)", "(p3 1e16 -1e16 1.0)",
             "(p3 1.0 1e16 -1e16)", "(p5 1.0 1e16 -1e16 1.0 1e-320)", "(m4 1e200 1e200 1e-200 1e-200)", "(m3 1e200 1e200 1e-200)",
             "(s4 1e308 -1e308 1e308 1e308)", "(p4 4611686018427387904 4611686018427387904 -4611686018427387904 -4611686018427387904)",
             "(p4 0.1 0.3 1e16 -1e16)", "(q4 1e308 1e200 1e200 -1e308)"]
    calls = list(fixed)
    while len(calls) < n:
        f, ps = ck.rng.choice(fns)
        calls.append("(%s %s)" % (f, " ".join(ck.rng.choice(NARY_VALS) for _ in ps.split())))
    cases = [['(require "%s")' % path, c, c] for c in calls]
    on = ck.eval_cases(cases, fresh=True, env={}, batch=20, timeout_per_batch=120)
    off = ck.eval_cases(cases, fresh=True, env={"STEEL_JIT": "false"}, batch=20, timeout_per_batch=120)
    top = ck.eval_cases([[NARY_FNS, c] for c in calls], fresh=True, env={"STEEL_JIT": "false"}, batch=20, timeout_per_batch=120)

    def outcome(r):
        return ["OK " + " ".join(x["ok"]) if "ok" in x else ("ERR" if "err" in x else "CRASH " + json.dumps(x)[:80]) for x in r[1:]]
    bad = 0
    for c, a, b, t in zip(calls, on, off, top):
        ck.cov["evaluations"] += 1
        oa, ob, ot = outcome(a), outcome(b), outcome(t)
        if oa != ob or oa[:1] != ot[:1]:
            bad += 1
            if bad <= 4:
                ck.failing_input("n-ary arithmetic in a module function differs between native tier, interpreter and top-level definition on %s" % c,
                                 {"history": ['(require "<module>")', c, c], "module_file": NARY_FNS, "call": c,
                                  "jit_on": oa, "jit_off": ob, "top_level_jit_off": ot, "config": {}}, tag="nary")
    ck.cov["nary_sweep"] = {"calls": len(calls), "functions": len(fns), "differing": bad}
    return bad


def jit_sweep(ck, full=False):
    """Native tier against the interpreter on single operations with operands of every kind (mostly of the WRONG
    type): the functions live in a required module, where primitives compile to opcodes and, with the JIT on, to the
    native helpers of jit.rs; every call is made twice on a fresh engine.  Outcome (value or error / success) must
    not depend on STEEL_JIT."""
    import os
    fns = re.findall(r"\(define \((\w+)((?: \w)*)\)", SWEEP_FNS)
    d = os.path.join(ck.work, "mods")
    os.makedirs(d, exist_ok=True)
    path = os.path.join(d, "sweep.scm")
    with open(path, "w") as fh:
        fh.write(SWEEP_FNS + "(provide " + " ".join(f for f, _ in fns) + ")\n")
    calls = []
    for f, ps in fns:
        n = len(ps.split())
        for v in SWEEP_VALS:
            if n == 1:
                calls.append("(%s %s)" % (f, v))
            else:
                calls.append("(%s %s 1)" % (f, v))
                calls.append("(%s 1 %s)" % (f, v))
                calls.append("(%s %s 0)" % (f, v))
    if ck.tier == "quick" and not full:
        calls = ck.rng.sample(calls, 320)
    cases = [['(require "%s")' % path, c, c] for c in calls]
    on = ck.eval_cases(cases, fresh=True, env={}, batch=20, timeout_per_batch=120)
    off = ck.eval_cases(cases, fresh=True, env={"STEEL_JIT": "false"}, batch=20, timeout_per_batch=120)

    def outcome(r):
        out = []
        for x in r[1:]:
            if "ok" in x:
                out.append("OK " + " ".join(x["ok"]))
            elif "err" in x:
                out.append("ERR")
            elif "out" in x:
                out.append("OUT " + x["out"])
            else:
                out.append("CRASH " + json.dumps(x)[:80])
        return out
    bad = 0
    kinds = set()
    for c, a, b in zip(calls, on, off):
        ck.cov["evaluations"] += 1
        oa, ob = outcome(a), outcome(b)
        kinds.add((c.split()[0], ob[0][:3] if ob else "?"))
        if oa != ob:
            bad += 1
            if bad <= 5:
                ck.failing_input("native tier and interpreter differ on %s" % c,
                                 {"history": ['(require "<module>")', c, c], "module_file": SWEEP_FNS, "call": c,
                                  "jit_on": oa, "jit_off": ob, "config": {}}, tag="jit")
    ck.cov["jit_sweep"] = {"calls": len(calls), "functions": len(fns), "operand_kinds": len(SWEEP_VALS),
                           "distinct_function_outcome_pairs": len(kinds), "differing": bad}
    return kinds


def proc_global_histories(ck, n):
    """A global whose value is a procedure that the inliner cannot see through (a built-in, or a closure returned by
    a call) is called from functions compiled in earlier units - in tail and non-tail position, in loops, from inner
    lambdas - and then assigned: every later call must use the new procedure (cf. the quantifier: 'later pieces
    redefine or assign globals that earlier compiled functions call')."""
    r = ck.rng
    I, V, A = lang.I, lang.V, lang.A
    prims = ["+", "*", "max", "min", "-"]
    out = []
    for k in range(n):
        gp, mk, c = "gp%d" % k, "mkp%d" % k, "cl%d" % k

        def value():
            t = r.random()
            if t < 0.55:
                return V(r.choice(prims))
            if t < 0.8:
                return A(mk, I(r.randint(1, 9)))
            return ("lam", ["x", "y"], None, [A(r.choice(["+", "-"]), A("*", V("x"), I(r.randint(2, 5))), V("y"))])
        init = V(r.choice(prims)) if r.random() < 0.7 else A(mk, I(r.randint(1, 9)))
        shape = r.choice(["nontail", "tail", "loop", "inner", "branch", "nested"])
        if shape == "nontail":
            body = A("list", A(gp, V("a"), V("b")), A(gp, V("b"), V("a")))
        elif shape == "tail":
            body = A(gp, V("a"), V("b"))
        elif shape == "loop":
            body = ("nlet", "loop", [("i", I(0)), ("acc", I(0))],
                    [("if", A("<", V("i"), I(3)), A("loop", A("+", V("i"), I(1)), A("+", V("acc"), A(gp, V("a"), V("i")))), V("acc"))])
        elif shape == "inner":
            body = A("map", ("lam", ["x"], None, [A(gp, V("x"), V("b"))]), A("list", V("a"), V("b")))
        elif shape == "branch":
            body = A("+", I(1), ("if", A("<", V("a"), V("b")), A(gp, V("a"), V("b")), A(gp, V("b"), V("a"))))
        else:
            body = A(gp, A(gp, V("a"), V("b")), A(gp, V("b"), I(2)))
        defs = [("define", mk, ("lam", ["k"], None, [("lam", ["x", "y"], None, [A("+", V("x"), V("y"), V("k"))])])),
                ("define", gp, init),
                ("define", c, ("lam", ["a", "b"], None, [body]))]

        def call():
            return A(c, I(r.randint(-5, 9)), I(r.randint(-5, 9)))
        units = [defs + [call()], [call(), call()],
                 [("begin", [("set", gp, value()), I(0)]), call()],
                 [call(), ("begin", [("set", gp, value()), I(0)]), call(), call()]]
        out.append(units)
    return out


def run(ck):
    ck.cov["trusted_base"] = [
        "Coq 8.16.1 kernel, coqc; vm_compute for model evaluation",
        "reference semantics coq/lib/Lang.v (configuration-free: the single meaning every configuration must produce)",
        "correspondence harness (evalsrv), renderers checks/lang.py",
    ]
    ck.assumptions = ["the switches are read from the process environment at compile / closure-creation time (compiler.rs, vm.rs); "
                      "each configuration runs in its own worker processes",
                      "native code generation itself (Cranelift output) is covered by differential execution only"]
    proved = ck.proof_stage(["c02"], ["c02/Properties_C02"], "c02/Pins_C02.v")
    # native tier: table of helper call sites regenerated from the sources; obligation: every fallible site is checked
    from checks import c02_jit
    sites, facts = c02_jit.extract(common.REPO)
    ck.translate("Gen_C02jit", c02_jit.coq_text(sites, facts))
    jit_proved = ck.proof_stage(["c02"], ["c02/Properties_C02jit"], "c02/Pins_C02jit.v")
    ck.cov["jit_call_sites"] = {"sites": len(sites), "fallible": sum(1 for x in sites if x["fallible"] is not False),
                                "unchecked_fallible": [x for x in sites if x["fallible"] is not False and not x["checked"]]}
    proved = proved and jit_proved
    ck.harness_build(["evalsrv"])
    g = lang.Gen(ck.rng)
    nh, np_ = (16, 24) if ck.tier == "quick" else (300, 500)
    pgh = proc_global_histories(ck, 12 if ck.tier == "quick" else 200)
    ck.cov["procedure_global_histories"] = len(pgh)
    items = [[p] for p in lang.CORPUS] + pgh + [g.history() for _ in range(nh)] + [[g.program()] for _ in range(np_)]
    configs = all_configs()
    if ck.tier == "quick":
        base = [configs[0], {"STEEL_JIT": "false"}, configs[-1] if False else
                {"STEEL_INLINE": "1", "STEEL_INLINE_RECURSIVE": "1", "STEEL_MODULE_INLINE": "1"},
                {"STEEL_JIT": "false", "STEEL_CLOSURE_LIFTING": "false"}]
        extra = ck.rng.sample(configs, 1)
        chosen = base + [c for c in extra if c not in base]
    else:
        chosen = configs
    ck.log("proof stages done; %d histories/programs" % len(items))
    model = ck.coq_eval(lang.COQ_HEADER, [lang.model_expr(h) for h in items], shard=20)
    ck.log("reference evaluated")
    # a program the reference cannot finish within its fuel is not compared: do not run it on the engine either
    # (it would cost the time limit under every configuration)
    keep = [k for k, m in enumerate(model) if "FUEL" not in m]
    ck.cov["out_of_fuel_skipped"] = len(items) - len(keep)
    items = [items[k] for k in keep]
    model = [model[k] for k in keep]
    nontrivial = set()
    per_cfg = {}
    for env in chosen:
        cases = [[lang.unit_to_steel(u) for u in h] for h in items]
        eng = ck.eval_cases(cases, fresh=True, env=env, batch=10, timeout_per_batch=90)
        name = cfg_name(env)
        ck.log("configuration %s evaluated" % name)
        per_cfg[name] = 0
        for h, e_raw, m in zip(items, eng, model):
            e = c01.engine_render(e_raw)
            ck.cov["evaluations"] += 1
            if "FUEL" in m:
                continue
            nontrivial.add((m, name))
            per_cfg[name] += 1
            if e != m:
                if "HANG" in e or "CRASH" in e:
                    # no shrinking of a time-out / crash (every step would cost the time limit again)
                    ck.cov["crash_or_hang"] = ck.cov.get("crash_or_hang", 0) + 1
                    if ck.cov["crash_or_hang"] <= 4:
                        case = {"history": [lang.unit_to_steel(u) for u in h], "config": env, "engine": e, "reference": m}
                        ck.failing_input("configuration %s: engine %s where the reference gives an answer"
                                         % (name, "did not answer within the time limit" if "HANG" in e else "crashed"), case, tag="cfg")
                    continue
                small = shrink_history(ck, h, env)
                (e2, m2), = c01.compare(ck, [small], env=env)
                # is it configuration dependent? run the shrunk history under the default configuration too
                (e0, _), = c01.compare(ck, [small], env={})
                case = {"history": [lang.unit_to_steel(u) for u in small], "config": env, "engine": e2,
                        "engine_default_config": e0, "reference": m2}
                ck.failing_input("configuration %s: engine and reference differ (default configuration gives %s)"
                                 % (name, "the same" if e0 == e2 else "another result"), case, tag="cfg")
    # ---- definitions in a required module (cross-module inlining)
    mods = module_cases(ck, g, 24 if ck.tier == "quick" else 300)
    mmodel = ck.coq_eval(lang.COQ_HEADER, [lang.model_expr(ref) for _, ref in mods], shard=20)
    for env in chosen:
        eng = ck.eval_cases([u for u, _ in mods], fresh=True, env=env, batch=10, timeout_per_batch=90)
        name = cfg_name(env)
        for (units, ref), e_raw, m in zip(mods, eng, mmodel):
            ck.cov["evaluations"] += 1
            if "FUEL" in m or m.startswith("ERR"):
                # a module whose body fails does not load at all (none of its names is bound), whereas the
                # reference unit keeps the definitions evaluated before the failure: not comparable
                continue
            e = c01.engine_render(e_raw)
            nontrivial.add((m, name, "module"))
            if e != m:
                case = {"history": units, "module_file": open(units[0].split('"')[1]).read(), "config": env, "engine": e, "reference": m}
                ck.failing_input("configuration %s: a program with its definitions in a required module differs from the reference" % name,
                                 case, tag="mod")
    ck.cov["module_programs"] = len(mods)
    ck.log("module family done")
    # ---- native tier vs interpreter on single operations, operands of every kind
    jit_sweep(ck, full=not jit_proved)
    nary_sweep(ck, 60 if ck.tier == "quick" else 400)
    for h, m in list(zip(items, model))[:3]:
        ck.sample({"history": [lang.unit_to_steel(u) for u in h][:3], "reference": m[:300]})
    ck.cov["distinct_nontrivial"] = len(nontrivial)
    ck.cov["configurations"] = [cfg_name(c) for c in chosen]
    ck.cov["compared_per_configuration"] = per_cfg
    ck.cov["rule"] = ("histories (3-8 units on one engine, with redefinition / set! of globals that earlier functions use) and "
                      "single-unit programs from checks/lang.py, each run under the listed configurations; distinct = distinct "
                      "(reference outcome, configuration); out-of-fuel references are skipped")
    ck.cov["construct_histogram"] = g.stats
    if not proved and not ck.violations:
        ck.unproved()


def replay(ck, path):
    obj = json.load(open(path))
    case = obj.get("case")
    if not case:
        print(json.dumps(obj, indent=1))
        return
    ck.harness_build(["evalsrv"])
    eng = ck.eval_cases([case["history"]], fresh=True, env=case.get("config") or {})
    e = c01.engine_render(eng[0])
    print("config:", case.get("config"), "\nengine:", e, "\nreference:", case["reference"])
    if e != case["reference"]:
        ck.failing_input("replay: engine and reference differ", case, tag="cfg")
