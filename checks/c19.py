"""C19 -- unreachable mutable storage, including cycles, is eventually reclaimed (DESIGN.md section 4, C19).

Shares the heap model, the translator and the script machinery with C04 (checks/heapcommon.py, checks/c04.py).
(P) coq/c19/Properties_C19.v: sweep_complete (flag = reach after a full collection), count bookkeeping, reuse_before_growth,
    bounded_growth with the explicit bound from the generated constants, weak_box_clears.
(C) (i) garbage-heavy heap scripts on small heaps with a full collection before every allocation: the model has to agree on the
    slot counts, and after every explicit collection free = total - live by a python oracle; (ii) allocation loops with a bounded
    live set in the default heap geometry (acyclic, cycles of length 1..50, garbage held by dropped continuations, finished
    threads, shadowed-then-recycled globals), sampled with #%verif-heap-stats: slots within the bound, alloc_count = free slots,
    and after a final collection free = total - baseline; (iii) weak boxes; (iv) a second thread's stack (count drift)."""
import json

from checks import common
from checks import heapcommon as H
from checks import c04
from checks.common import TieBroken

LOOPS = r"""
(define (c19-acyclic n) (if (= n 0) 0 (begin (box n) (c19-acyclic (- n 1)))))
(define (c19-cyc n len) (if (= n 0) 0 (begin (c04-cyc len) (c19-cyc (- n 1) len))))
(define (c19-vec n) (if (= n 0) 0 (begin (let ((v (vector 1 2))) (vector-set! v 0 v)) (c19-vec (- n 1)))))
(define (c19-selfclo n) (if (= n 0) 0 (begin (let ((b (box 0))) (set-box! b (lambda () b))) (c19-selfclo (- n 1)))))
(define c19-k 0)
(set! c19-k 0)
(define (c19-grab v) (let ((x v)) (let ((m (call/cc (lambda (k) (set! c19-k k) 'first)))) (if (eq? m 'first) 0 (unbox x)))))
(define (c19-kont n) (if (= n 0) (begin (set! c19-k 0) 0) (begin (c19-grab (box n)) (c19-kont (- n 1)))))
(define (c19-threads n per) (if (= n 0) 0 (begin (thread-join! (spawn-native-thread (lambda () (c19-cyc per 3)))) (c19-threads (- n 1) per))))
(define (c19-sample) (let ((s (#%verif-heap-stats))) (list (list-ref s 0) (list-ref s 1))))
"""


def known_none(case, params):
    return False


def bound(facts, live):
    b = max(facts["init_slots"], 2 * live, live + facts["extend_chunk"])
    return b * 2 ** facts["reset_limit"]


def loop_cases(ck, facts):
    rng = ck.rng
    quick = ck.tier == "quick"
    n = 100000 if quick else 10000000
    k1, k2 = rng.randint(1, 50), rng.randint(1, 50)
    pats = [("acyclic", "(c19-acyclic %d)" % (n // 10), 10),
            ("cycle-%d" % k1, "(c19-cyc %d %d)" % (max(1, n // (10 * k1)), k1), 10),
            ("cycle-%d" % k2, "(c19-cyc %d %d)" % (max(1, n // (10 * k2)), k2), 10),
            ("self-cycle", "(c19-cyc %d 1)" % (n // 10), 10),
            ("vector-cycle", "(c19-vec %d)" % (n // 10), 10),
            ("self-capturing-closure", "(c19-selfclo %d)" % (n // 10), 10),
            ("dead-continuation", "(c19-kont %d)" % (n // 20), 10),
            ("finished-threads", "(c19-threads %d %d)" % (4 if quick else 40, n // 400), 5)]
    cases = []
    for name, call, reps in pats:
        units = ["(begin (#%gc-collect) (c19-sample))"]
        for _ in range(reps):
            units += [call, "(c19-sample)"]
        units += ["(begin (#%gc-collect) (c19-sample))"]
        cases.append((name, units))
    # shadowed-then-recycled globals: every unit shadows the previous definition, whose box becomes unreachable once the
    # recycler has released the slot
    units = ["(begin (#%gc-collect) (c19-sample))"]
    for i in range(330):
        units.append("(define c19-shadow (box %d))" % i)
    # (a shadowed slot is released by the next round of the recycler; the rounds start after 100, 200, 400, 800 shadowings)
    units += ["(define c19-shadow 0)"] + ["(define c19-other%d %d)" % (i % 7, i) for i in range(900)]
    units += ["(c19-sample)", "(begin (#%gc-collect) (c19-sample))"]
    cases.append(("recycled-globals", units))
    # a wide container (more children than the marker's local queue holds) that becomes garbage
    nw = rng.randint(5000, 12000)
    cases.append(("wide-dropped-%d" % nw,
                  ["(begin (#%gc-collect) (c19-sample))", "(let ((ignore (set! w-root (w-fill (make-vector %d 0) 0 0 %d)))) 0)" % (nw, nw),
                   "(begin (#%gc-collect) (c19-sample))", "(w-bad-vec 0 w-root 0 %d 0)" % nw, "(let ((ignore (set! w-root 0))) 0)",
                   "(c19-acyclic 30000)", "(begin (#%gc-collect) (c19-sample))"]))
    return cases


def parse_sample(s):
    g = H.parse_stats(s)
    return g[0], g[1]


def run_loops(ck, facts, stats):
    cases = loop_cases(ck, facts)
    for jit in (True, False):
        res = ck.eval_cases([u for _, u in cases], prelude=H.PRELUDE + H.WIDE_PRELUDE + LOOPS, env=({} if jit else {"STEEL_JIT": "false"}),
                            fresh=True, batch=1, timeout_per_batch=600)
        for (name, units), r in zip(cases, res):
            case = {"pattern": name, "jit": jit, "units": units}
            ck.cov["evaluations"] += 1
            stats["loops"][name] = stats["loops"].get(name, 0) + 1
            bad = [o for o in r if "ok" not in o]
            if len(r) != len(units) or bad:
                ck.failing_input("allocation loop %s (jit=%s): engine outcome %s" % (name, jit, json.dumps(bad[:1] or r[-1:])[:300]), case, tag="loop")
                continue
            samples = [parse_sample(o["ok"][-1]) for o in r if o["ok"] and o["ok"][-1].startswith("((I")]
            (b0, v0), (b1, v1) = samples[0], samples[-1]
            if name.startswith("wide-dropped"):
                nw = int(name.split("-")[-1])
                bm, vm = samples[1]
                if (bm[0] - bm[1]) != (b0[0] - b0[1]) + nw or (vm[0] - vm[1]) != (v0[0] - v0[1]) + 1 or "I0" not in [o["ok"][-1] for o in r if o.get("ok")]:
                    ck.failing_input("wide container of %d boxes (jit=%s): %d box / %d vector slots flagged live after a full collection, expected %d / %d"
                                     % (nw, jit, bm[0] - bm[1], vm[0] - vm[1], (b0[0] - b0[1]) + nw, (v0[0] - v0[1]) + 1), dict(case, sample=[bm, vm]), tag="wide")
                    continue
            live_b, live_v = b0[0] - b0[1], v0[0] - v0[1]
            lim_b, lim_v = bound(facts, live_b + 64), bound(facts, live_v + 64)
            stats["max_slots"] = max(stats["max_slots"], max(s[0][0] for s in samples))
            for (sb, sv) in samples:
                if sb[1] != sb[2] or sv[1] != sv[2]:
                    ck.failing_input("allocation loop %s (jit=%s): alloc_count %d/%d differs from the number of free slots %d/%d"
                                     % (name, jit, sb[2], sv[2], sb[1], sv[1]), dict(case, sample=[sb, sv]), tag="count")
                    break
                if sb[0] > lim_b or sv[0] > lim_v:
                    ck.failing_input("allocation loop %s (jit=%s): %d box / %d vector slots exceed the bound %d / %d for a live set of %d / %d"
                                     % (name, jit, sb[0], sv[0], lim_b, lim_v, live_b, live_v), dict(case, sample=[sb, sv]), tag="growth")
                    break
            else:
                # after the final forced collection everything the loop allocated is free again
                if b1[0] - b1[1] != live_b or (name == "vector-cycle" and v1[0] - v1[1] != live_v):
                    ck.failing_input("allocation loop %s (jit=%s): %d box / %d vector slots are still flagged live after a full collection, "
                                     "%d / %d were live before the loop (unreachable storage is not reclaimed)"
                                     % (name, jit, b1[0] - b1[1], v1[0] - v1[1], live_b, live_v), dict(case, first=[b0, v0], last=[b1, v1]), tag="leak")
            if len(ck.cov["samples"]) < 4:
                ck.sample({"pattern": name, "jit": jit, "first": [b0, v0], "last": [b1, v1], "bound": lim_b})


def run_weak(ck, stats):
    units = ["(define c19-w1 (make-weak-box 10))\n(define c19-w2 (make-weak-box (list 1 2)))\n(define c19-w3 (make-weak-box (box 5)))",
             "(list (weak-box-value c19-w1) (weak-box-value c19-w2) (unbox (weak-box-value c19-w3)))",
             "(#%gc-collect)",
             "(list (weak-box-value c19-w1) (weak-box-value c19-w2) (weak-box-value c19-w3 'gone))"]
    want = ["(I10 (I1 I2) I5)", "(#f #f '\"gone\")"]
    for jit in (True, False):
        r = ck.eval_cases([units], prelude="", env=({} if jit else {"STEEL_JIT": "false"}), fresh=True, batch=1)[0]
        ck.cov["evaluations"] += 1
        stats["weak"] += 1
        got = [r[1]["ok"][-1] if len(r) > 1 and "ok" in r[1] else json.dumps(r[1:2]), r[3]["ok"][-1] if len(r) > 3 and "ok" in r[3] else json.dumps(r[3:4])]
        if got != want:
            ck.failing_input("weak boxes: before / after a collection the engine reports %s, expected %s" % (got, want),
                             {"units": units, "jit": jit, "got": got, "want": want}, tag="weak")


def run_thread_drift(ck, stats):
    units = ["(define (c19-mk n acc) (if (= n 0) acc (c19-mk (- n 1) (cons (box n) acc))))\n"
             "(define (c19-sum l acc) (if (null? l) acc (c19-sum (cdr l) (+ acc (unbox (car l))))))",
             "(let ((mine (c19-mk 3000 '()))) (let ((r (thread-join! (spawn-native-thread (lambda () (c19-sum (c19-mk 60000 '()) 0)))))) (list r (c19-sum mine 0))))",
             "(c19-sample)"]
    for jit in (True, False):
        r = ck.eval_cases([units], prelude=H.PRELUDE + LOOPS, env=({} if jit else {"STEEL_JIT": "false"}), fresh=True, batch=1, timeout_per_batch=300)[0]
        ck.cov["evaluations"] += 1
        stats["thread_drift"] += 1
        case = {"units": units, "jit": jit, "kind": "second thread allocates while the first holds boxes on its stack"}
        ok = len(r) == 3 and "ok" in r[1] and r[1]["ok"][-1] == "(I1800030000 I4501500)" and "ok" in r[2]
        if ok:
            sb, sv = parse_sample(r[2]["ok"][-1])
            ok = sb[1] == sb[2] and sv[1] == sv[2]
        if not ok:
            ck.failing_input("a thread allocating while another thread holds boxes on its stack: outcome %s" % json.dumps(r[1:])[:300], case, tag="drift")


def run(ck):
    ck.cov["trusted_base"] = [
        "Coq 8.16.1 kernel, coqc; vm_compute for model evaluation",
        "translator checks/heapcommon.py:translate_heap and its payload-type table; hand-written model coq/c04/Model_C04.v",
        "hook H2 (cfg steel_verif) in closed.rs: statistics built-in, forced collections, chunk override",
        "script renderers / python oracles in checks/heapcommon.py, checks/c04.py, checks/c19.py; harness evalsrv",
        "bound formula f(L) = max(init, 2L, L + chunk) * 2^RESET_LIMIT evaluated in python from the generated constants (proved in Coq as bounded_growth)",
    ]
    ck.assumptions = [
        "memory held outside the two free lists is out of scope: immutable reference-counted values cannot form cycles; deferred cross-thread drops rely on C05",
        "live-set bound L of the loops = slots flagged live after a forced collection before the loop + 64 (loop temporaries)",
        "slot vector lengths below 2^40 (percent_full is an f64 comparison, modelled exactly)",
    ]
    text, facts = H.translate_heap()
    ck.translate("Gen_C04", text)
    ck.cov["generated_facts"] = ["Gen_C04 (shared with C04): reset_limit %d extend_chunk %d init_slots %d full_pct %d; mark queue cleared %s"
                                 % (facts["reset_limit"], facts["extend_chunk"], facts["init_slots"], facts["full_pct"], facts["mark_queue_cleared"])]
    proved = ck.proof_stage(["c04", "c19", "gen"], ["c19/Properties_C19"], "c19/Pins_C19.v")
    ck.harness_build(["evalsrv"])
    stats = {"scripts": 0, "agree": 0, "disagree": 0, "counts_skipped": 0, "hidden_alloc_scripts": 0, "holders": {}, "allocs_engine": 0,
             "recycle_runs": 0, "loops": {}, "weak": 0, "thread_drift": 0, "max_slots": 0}
    # (i) garbage-heavy scripts, small heaps, a full collection before every allocation; model agreement + free = total - live
    n = 30 if ck.tier == "quick" else 600
    for env in ({"chunk": 32, "every": 1, "jit": True}, {"chunk": ck.rng.choice([24, 32, 64]), "every": ck.rng.choice([1, 2, 4]), "jit": False}):
        scripts = list(c04.CORPUS[:1]) + [garbage_script(ck.rng, 10) for _ in range(n)]
        c04.check_batch(ck, scripts, env, "chunk=%(chunk)d every=%(every)d jit=%(jit)s" % env, stats)
    run_weak(ck, stats)
    run_thread_drift(ck, stats)
    run_loops(ck, facts, stats)
    ck.cov["distinct_nontrivial"] = len(stats["loops"]) + sum(1 for v in stats["holders"].values() if v)
    ck.cov["rule"] = ("distinct = allocation-loop patterns run to completion (each 10^5 allocations or more in the quick tier, sampled 5-10 times) "
                      "+ operation / holder kinds exercised by the small-heap scripts; every one reclaims garbage under collection")
    ck.cov["stats"] = stats
    if not proved and not ck.violations:
        ck.unproved()


def garbage_script(rng, nsteps):
    """scripts dominated by garbage creation and explicit collections"""
    ref = H.RefStore()
    steps = []
    for i in range(nsteps):
        k = rng.random()
        if k < 0.3:
            st = ("cyc", rng.randint(1, 8))
        elif k < 0.45:
            st = ("churn", rng.randint(1, 8))
        elif k < 0.65:
            st = ("collect",)
        else:
            st = H.gen_plain(rng, ref)
        ref.apply(st)
        steps.append(st)
    steps.append(("collect",))
    return steps


def replay(ck, path):
    obj = json.load(open(path))
    case = obj.get("case")
    if not case:
        print(json.dumps(obj, indent=1)[:4000])
        return
    ck.harness_build(["evalsrv"])
    if "steps" in case:
        c04.replay(ck, path)
        return
    r = ck.eval_cases([case["units"]], prelude=H.PRELUDE + H.WIDE_PRELUDE + LOOPS, env=({} if case.get("jit", True) else {"STEEL_JIT": "false"}), fresh=True, batch=1)
    print(json.dumps(r)[:3000])
