"""Translator for the native tier's error discipline (C02): extracts from jit2/cgen.rs and steel_vm/vm/jit.rs the
table of helper call sites of the code generator's main loop with two facts per site: can the helper report an error
through ctx.result, and is the call followed by check_deopt.  Written to coq/gen/Gen_C02jit.v; the obligation
`discipline sites = true` is proved there by computation (coq/c02/Properties_C02.v)."""
import os
import re


def fn_bodies(src):
    out = {}
    for m in re.finditer(r'\bfn\s+(\w+)\s*(?:<[^>]*>)?\s*\(', src):
        name = m.group(1)
        depth, j = 0, m.end() - 1
        while j < len(src):
            ch = src[j]
            if ch == '(':
                depth += 1
            elif ch == ')':
                depth -= 1
                if depth == 0:
                    break
            j += 1
        i = src.find('{', j)
        semi = src.find(';', j)
        if i < 0 or (0 <= semi < i):
            continue
        d, k = 0, i
        while k < len(src):
            if src[k] == '{':
                d += 1
            elif src[k] == '}':
                d -= 1
                if d == 0:
                    break
            k += 1
        out.setdefault(name, src[i:k + 1])
    return out


REPORT = re.compile(r'result\s*=\s*Some\(\s*Err|compare_or_report\(')


def extract(repo):
    jit = open(os.path.join(repo, 'crates/steel-core/src/steel_vm/vm/jit.rs')).read()
    cg = open(os.path.join(repo, 'crates/steel-core/src/jit2/cgen.rs')).read()
    lists = open(os.path.join(repo, 'crates/steel-core/src/primitives/lists.rs')).read()
    bodies = fn_bodies(jit)
    # callee known to have no error path: `cons` (a non-list tail makes a pair); checked in the source
    cons_body = fn_bodies(lists).get("cons", "Err(")
    cons_infallible = not re.search(r'Err\(|stop!|\?;|\?\)', cons_body)

    def fallible(fn, seen=None):
        seen = seen or set()
        if fn in seen:
            return False
        seen.add(fn)
        b = bodies.get(fn)
        if b is None:
            return None
        if REPORT.search(b):
            if cons_infallible and re.search(r'match\s+cons\(', b) and len(REPORT.findall(b)) == 1:
                return False
            return True
        for callee in set(re.findall(r'\b(\w+)\s*\(', b)):
            if callee in bodies and callee != fn and callee not in seen and fallible(callee, seen):
                return True
        return False
    macro_fallible = {}
    for m in re.finditer(r'macro_rules!\s*(\w+)\s*\{', jit):
        name = m.group(1)
        i = m.end() - 1
        d, k = 0, i
        while k < len(jit):
            if jit[k] == '{':
                d += 1
            elif jit[k] == '}':
                d -= 1
                if d == 0:
                    break
            k += 1
        macro_fallible[name] = bool(REPORT.search(jit[i:k + 1])) or bool(re.search(r'call_\w*deopt\w*\(', jit[i:k + 1]))
    gen = {}
    for mac, fal in macro_fallible.items():
        for m in re.finditer(mac + r'!\s*\(([^;]*?)\)\s*;', jit, re.S):
            for nm in re.findall(r'\(?\s*(\w+)\s*,', m.group(1)):
                gen[nm] = fal
    reg = {}
    for m in re.finditer(r'add_func\w*\(\s*"([^"]+)"\s*,\s*(?:abi!\s*\{\s*)?(\w+)', cg):
        reg[m.group(1)] = m.group(2)

    def is_fallible(helper):
        fn = reg.get(helper)
        if fn is None:
            return None
        if fn in gen:
            return gen[fn]
        return fallible(fn)
    tbl = {}
    i = cg.find('fn op_to_name_payload')
    j = cg.find('other => panic!', i)
    for m in re.finditer(r'\(OpCode::(\w+),\s*([\w_]+)\)\s*=>\s*"([^"]+)"', cg[i:j]):
        tbl.setdefault(m.group(1), []).append(m.group(3))
    s = cg.find('fn stack_to_ssa')
    body_start = cg.find('match op {', s)
    end = cg.find('\n    fn ', body_start)
    main = cg[body_start:end]
    arms = re.split(r'\n                (?=OpCode::)', main)
    sites = []
    for arm in arms[1:]:
        head = arm.split('=>', 1)[0]
        ops = re.findall(r'OpCode::(\w+)', head)
        lines = arm.split('\n')
        offs, pos = [], 0
        for ln in lines:
            offs.append(pos)
            pos += len(ln) + 1

        def line_of(p):
            k = 0
            while k + 1 < len(offs) and offs[k + 1] <= p:
                k += 1
            return k
        calls = []
        for m in re.finditer(r'(call_function_returns_value_args(?:_no_context)?|func_ret_val_named)\(\s*("([^"]+)"|(\w+))', arm):
            if m.group(3):
                names = [m.group(3)]
            else:
                pre = arm[:m.start()].split('\n')[-14:]
                names = re.findall(r'"([a-z0-9\-]+)"', '\n'.join(pre))
            calls.append((m.start(), names))
        for m in re.finditer(r'func_ret_val\(\s*op\b', arm):
            calls.append((m.start(), [n for o in ops for n in tbl.get(o, [])]))
        calls.sort()
        for idx, (p, names) in enumerate(calls):
            li = line_of(p)
            ind = len(lines[li]) - len(lines[li].lstrip())
            nxt = line_of(calls[idx + 1][0]) if idx + 1 < len(calls) else len(lines)
            checked = False
            for k in range(li, len(lines)):
                ln = lines[k]
                if 'check_deopt()' not in ln or ln.strip().startswith('//'):
                    continue
                ind2 = len(ln) - len(ln.lstrip())
                # a test in the same or a nested block before the next call, or in an enclosing block after it
                if (k < nxt and ind2 >= ind) or ind2 < ind:
                    checked = True
                    break
            for n in names:
                sites.append({"arm": "|".join(ops), "helper": n, "fallible": is_fallible(n), "checked": checked})
    # every place where a helper (or a macro that generates helpers) stores an error must also clear ctx.is_native:
    # that flag is what the generated code tests
    clear = []
    units = dict(bodies)
    for m in re.finditer(r'macro_rules!\s*(\w+)\s*\{', jit):
        i = m.end() - 1
        d, k = 0, i
        while k < len(jit):
            if jit[k] == '{':
                d += 1
            elif jit[k] == '}':
                d -= 1
                if d == 0:
                    break
            k += 1
        units["macro " + m.group(1)] = jit[i:k + 1]
    STORE = re.compile(r'result\s*=\s*Some\(\s*Err')
    CLEAR = re.compile(r'is_native\s*=\s*false')
    for name, body in sorted(units.items()):
        n_err = len(STORE.findall(body))
        if n_err:
            clear.append({"unit": name, "stores": n_err, "clears": len(CLEAR.findall(body))})
    return sites, {"cons_infallible": cons_infallible, "helpers_registered": len(reg), "clear": clear}


def coq_text(sites, facts):
    def b(x):
        return "true" if x else "false"
    rows = ["  (\"%s\"%%string, \"%s\"%%string, %s, %s)" % (x["arm"], x["helper"], b(x["fallible"] is not False), b(x["checked"]))
            for x in sites]
    return ("(* GENERATED by checks/c02_jit.py from jit2/cgen.rs and steel_vm/vm/jit.rs - do not edit *)\n"
            "From Coq Require Import List String Bool.\nImport ListNotations.\n"
            "(* arm of the code generator, helper called, helper can report an error through ctx.result (an unknown\n"
            "   helper counts as fallible), the call is followed by check_deopt *)\n"
            "Definition sites : list (string * string * bool * bool) := [\n" + ";\n".join(rows) + "\n].\n"
            "Definition cons_infallible : bool := %s.\n" % b(facts["cons_infallible"]) +
            "(* function / macro of jit.rs that stores an error in ctx.result, number of such stores, number of\n"
            "   `is_native = false` in the same body *)\n"
            "Definition error_stores : list (string * nat * nat) := [\n" +
            ";\n".join("  (\"%s\"%%string, %d, %d)" % (c["unit"], c["stores"], c["clears"]) for c in facts["clear"]) + "\n].\n")
