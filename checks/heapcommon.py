"""Shared pieces of the C04 / C19 checks: translator closed.rs -> coq/gen/Gen_C04.v, heap-script
generator, renderers (abstract op list -> Steel program / Coq term), reference store oracle."""
import json
import os
import re

from checks import common
from checks.common import TieBroken

CLOSED = "crates/steel-core/src/values/closed.rs"
RVALS = "crates/steel-core/src/rvals.rs"
CYCLES = "crates/steel-core/src/rvals/cycles.rs"
VM = "crates/steel-core/src/steel_vm/vm.rs"


# ------------------------------------------------------------------------------------------------
# translator
def fn_body(src, header_regex, start=0, what=None):
    """Text of the body (between the outermost braces) of the first fn matching header_regex."""
    m = re.compile(header_regex).search(src, start)
    if not m:
        raise TieBroken("cannot find %s in source" % (what or header_regex))
    i = src.index("{", m.end() - 1) if src[m.end() - 1] != "{" else m.end() - 1
    # skip to the first '{' that opens the body (signature may contain none before it)
    depth = 0
    j = i
    while j < len(src):
        c = src[j]
        if c == "{":
            depth += 1
        elif c == "}":
            depth -= 1
            if depth == 0:
                return src[i + 1:j], j
        j += 1
    raise TieBroken("unbalanced braces after %s" % (what or header_regex))


def strip_rust_comments(s):
    s = re.sub(r"/\*.*?\*/", "", s, flags=re.S)
    return re.sub(r"//[^\n]*", "", s)


def block_after(src, header_regex, what=None):
    """Body of the `impl ... {` / `enum ... {` / `trait ... {` block whose header matches."""
    m = re.compile(header_regex).search(src)
    if not m:
        raise TieBroken("cannot find %s" % (what or header_regex))
    i = src.index("{", m.start())
    depth = 0
    j = i
    while j < len(src):
        if src[j] == "{":
            depth += 1
        elif src[j] == "}":
            depth -= 1
            if depth == 0:
                return src[i + 1:j]
        j += 1
    raise TieBroken("unbalanced braces in %s" % (what or header_regex))


def const_val(src, name):
    m = re.search(r"const\s+%s\s*:\s*usize\s*=\s*([0-9_ *]+);" % name, src)
    if not m:
        raise TieBroken("constant %s not found in closed.rs" % name)
    v = 1
    for f in m.group(1).split("*"):
        v *= int(f.strip().replace("_", ""))
    return v


# payload type of a SteelVal variant -> can a value of this kind hold other SteelVals (hence handles)?
PAYLOAD_HOLDS_VALUES = {
    "Gc<ByteCodeLambda>": True, "bool": False, "f64": False, "isize": False, "Rational32": False, "char": False,
    "SteelVector": True, "": False, "SteelString": False, "FunctionSignature": False,
    "GcMut<Box<dyn CustomType>>": True, "SteelHashMap": True, "SteelHashSet": True, "Gc<UserDefinedStruct>": True,
    "SteelPort": False, "Gc<Transducer>": True, "Gc<Reducer>": True, "BoxedAsyncFunctionSignature": False,
    "Gc<FutureResult>": False, "Gc<LazyStream>": True, "Gc<BoxedDynFunction>": False, "Continuation": True,
    "crate::values::lists::List<SteelVal>": True, "Gc<crate::values::lists::Pair>": True,
    "MutFunctionSignature": False, "BuiltInSignature": False, "HeapRef<Vec<SteelVal>>": True,
    "GcMut<OpaqueIterator>": True, "Gc<Syntax>": True, "GcMut<SteelVal>": True, "HeapRef<SteelVal>": True,
    "Gc<OpaqueReference<'static>>": False, "Gc<BigInt>": False, "Gc<BigRational>": False, "Gc<SteelComplex>": False,
    "SteelByteVector": False,
}

TRAVERSING = re.compile(r"push_back\s*\(|mark_heap_reference\s*\(|mark_heap_vector\s*\(|visit_children\s*\(")

ROOT_SETS = ["RsPending", "RsStack", "RsFrames", "RsGlobals", "RsTls", "RsHost",
             "RsThreadStack", "RsThreadFrames", "RsThreadTls"]


def steelval_kinds(rvals):
    body = strip_rust_comments(block_after(rvals, r"pub enum SteelVal\s*\{", "enum SteelVal"))
    kinds = []
    for m in re.finditer(r"(?m)^\s*(?:#\[[^\]]*\]\s*)*([A-Z][A-Za-z0-9]*)\s*(?:\((.*)\))?\s*,\s*$", body):
        kinds.append((m.group(1), (m.group(2) or "").strip()))
    if len(kinds) < 30:
        raise TieBroken("enum SteelVal: only %d variants recognised" % len(kinds))
    return kinds


def visit_dispatch(trait_body):
    """kind -> visit method, from the `match value { Kind(..) => self.visit_x(..) }` of a visitor's `visit`."""
    vb, _ = fn_body(trait_body, r"fn visit\(&mut self\)", what="visitor dispatch fn visit")
    d = {}
    for m in re.finditer(r"(?:SteelVal::|SteelValPointer::)?([A-Z][A-Za-z0-9]*)\s*(?:\([^)]*\))?\s*=>\s*\{?\s*self\s*\.\s*(visit_[a-z_]+)", vb):
        d[m.group(1)] = m.group(2)
    return d


def impl_arms(impl_body):
    """visit method name -> does its body traverse anything?"""
    arms = {}
    for m in re.finditer(r"fn (visit_[a-z_]+)\s*\(", impl_body):
        body, _ = fn_body(impl_body, r"fn %s\s*\(" % m.group(1), what=m.group(1))
        arms[m.group(1)] = bool(TRAVERSING.search(strip_rust_comments(body)))
    return arms


def skip_list(impl_body):
    pb, _ = fn_body(impl_body, r"fn push_back\(&mut self", what="push_back")
    pb = strip_rust_comments(pb)
    m = re.search(r"match[^{]*\{(.*?)=>\s*(?:\(\)|\{\s*\})", pb, re.S)
    if not m:
        raise TieBroken("push_back: cannot find the list of kinds that are not queued")
    return set(re.findall(r"SteelVal::([A-Z][A-Za-z0-9]*)", m.group(1)))



# ---- marker work queue (MarkAndSweepContextRefQueue::push_back / pop_front, ParallelMarker)
def _match_brace(t, i):
    depth = 0
    j = i
    while j < len(t):
        if t[j] == "{":
            depth += 1
        elif t[j] == "}":
            depth -= 1
            if depth == 0:
                return j
        j += 1
    raise TieBroken("unbalanced braces in the marker's push_back")


def branch_leaves(block):
    """Leaves of the if / else-if / else tree formed by `block` (text between braces): list of
    (conditions on the path, statements executed unconditionally in that leaf)."""
    t = block.strip()
    # unconditional simple statements before the conditional stay with every leaf
    pre = ""
    while True:
        m = re.match(r"([^{};]*;)\s*", t)
        if not m or t.startswith("if "):
            break
        pre += m.group(1)
        t = t[m.end():]
    if not t.startswith("if "):
        return [([], pre + t)]
    leaves = []
    conds = []
    while True:
        i = t.index("{")
        cond = t[2:i].strip()
        j = _match_brace(t, i)
        for c2, body in branch_leaves(t[i + 1:j]):
            leaves.append((conds + [cond] + c2, pre + body))
        conds = conds + ["!(" + cond + ")"]
        rest = t[j + 1:].strip()
        if rest.startswith("else if "):
            t = rest[5:]
            continue
        if rest.startswith("else"):
            k = rest.index("{")
            j2 = _match_brace(rest, k)
            for c2, body in branch_leaves(rest[k + 1:j2]):
                leaves.append((conds + c2, pre + body))
            tail = rest[j2 + 1:].strip()
        else:
            leaves.append((conds, pre))      # if without else: a path that executes nothing more
            tail = rest
        if tail:
            # statements after the conditional belong to every leaf
            leaves = [(c, b + " " + tail) for c, b in leaves]
        return leaves


FULL_TEST = re.compile(r"self\.local_queue\.len\(\)\s*(==|>=)\s*self\.local_queue\.capacity\(\)")
ENQ = re.compile(r"self\s*\.\s*(queue|local_queue)\s*\.\s*push\(\s*p\s*\)")


def marker_queue_facts(closed, cycles):
    """Facts about the work queue of the parallel marker: every path of push_back enqueues the pushed value,
    the drain loop empties both queues, all roots are enqueued, capacity of the local queue."""
    par_impl = block_after(closed, r"impl<'a> BreadthFirstSearchSteelValReferenceVisitor2<'a> for MarkAndSweepContextRefQueue<'a>", "parallel marker impl")
    pb, _ = fn_body(par_impl, r"fn push_back\(&mut self", what="parallel marker push_back")
    m = re.search(r"_\s*=>\s*\{", pb)
    if not m:
        raise TieBroken("parallel marker push_back: arm for the queued kinds not found")
    j = _match_brace(pb, m.end() - 1)
    arm = pb[m.end():j].strip()
    m2 = re.match(r"if let Some\(p\) = SteelValPointer::from_value\(value\)\s*\{", arm)
    if not m2:
        raise TieBroken("parallel marker push_back: `if let Some(p) = SteelValPointer::from_value(value)` not found")
    j2 = _match_brace(arm, m2.end() - 1)
    if arm[j2 + 1:].strip():
        raise TieBroken("parallel marker push_back: unexpected code after the enqueue block")
    leaves = branch_leaves(arm[m2.end():j2])
    spill, local = [], []
    for conds, body in leaves:
        tests = [c for c in conds if FULL_TEST.search(c)]
        if len(tests) != 1:
            raise TieBroken("parallel marker push_back: cannot tell the local-queue-full path from the other (conditions %s)" % conds)
        full = not tests[0].startswith("!(")
        flat = re.sub(r"\{[^{}]*\}", "", body)       # only unconditional statements of the leaf count
        (spill if full else local).append(bool(ENQ.search(flat)))
    if not spill or not local:
        raise TieBroken("parallel marker push_back: full / not-full paths not found")
    facts = {"pq_spill_enqueues": all(spill), "pq_local_enqueues": all(local)}
    pf, _ = fn_body(par_impl, r"fn pop_front\(&mut self\)", what="parallel marker pop_front")
    pf = re.sub(r"\s+", "", pf)
    both = pf in ("self.local_queue.pop().or_else(||self.queue.pop())", "self.queue.pop().or_else(||self.local_queue.pop())")
    par_trait = block_after(cycles, r"pub\(crate\) trait BreadthFirstSearchSteelValReferenceVisitor2<'a>", "reference visitor trait")
    vb, _ = fn_body(par_trait, r"fn visit\(&mut self\)", what="reference visitor visit")
    loop = bool(re.search(r"while let Some\(value\) = self\.pop_front\(\)\s*\{", vb)) and not re.search(r"\bbreak\b|\breturn\b", vb)
    overridden = bool(re.search(r"fn visit\(&mut self\)", par_impl))
    facts["pq_drain_both"] = both and loop and not overridden
    pm = block_after(closed, r"impl ParallelMarker\s*\{", "impl ParallelMarker")
    mk, _ = fn_body(pm, r"pub fn mark\(&self, queue: &\[SteelVal\]\)", what="ParallelMarker::mark")
    facts["pq_roots_enqueued"] = bool(re.search(
        r"for value in queue\.iter\(\)\s*\{\s*if let Some\(p\) = SteelValPointer::from_value\(value\)\s*\{\s*self\.queue\.push\(p\);\s*\}\s*\}", mk))
    nw, _ = fn_body(pm, r"pub fn new\(\) -> Self", what="ParallelMarker::new")
    mc = re.search(r"let mut local_queue = Vec::with_capacity\((\d+)\);", nw)
    if not mc:
        raise TieBroken("ParallelMarker::new: capacity of the local queue not found")
    facts["pq_local_capacity"] = int(mc.group(1))
    return facts


def translate_heap():
    """closed.rs / rvals.rs / cycles.rs / vm.rs  ->  text of coq/gen/Gen_C04.v and a dict of the facts."""
    # comments are removed first: they contain commented-out code with unbalanced braces
    closed = strip_rust_comments(common.repo_file(CLOSED))
    rvals = strip_rust_comments(common.repo_file(RVALS))
    cycles = strip_rust_comments(common.repo_file(CYCLES))
    vm = strip_rust_comments(common.repo_file(VM))
    facts = {}
    facts["gc_threshold"] = const_val(closed, "GC_THRESHOLD")
    facts["gc_grow_factor"] = const_val(closed, "GC_GROW_FACTOR")
    facts["reset_limit"] = const_val(closed, "RESET_LIMIT")
    chunks = set(re.findall(r"const\s+EXTEND_CHUNK\s*:\s*usize\s*=\s*([0-9_ *]+);", closed))
    if len(chunks) != 1:
        raise TieBroken("EXTEND_CHUNK: expected one value, found %s" % sorted(chunks))
    facts["extend_chunk"] = const_val(closed, "EXTEND_CHUNK")
    sync_impl = block_after(closed, r"#\[cfg\(feature = \"sync\"\)\]\s*impl<T: HeapAble \+ Sync \+ Send \+ 'static> FreeList<T>", "sync FreeList impl")
    newb, _ = fn_body(sync_impl, r"fn new\(\) -> Self", what="FreeList::new")
    m = re.search(r"res\.grow_by\((\d+)\)", newb)
    if not m:
        raise TieBroken("FreeList::new: initial grow_by(n) not found")
    facts["init_slots"] = int(m.group(1))
    growb, _ = fn_body(sync_impl, r"fn grow_by\(&mut self, amount: usize\)", what="grow_by")
    if not re.search(r"let current = self\.elements\.len\(\)\.max\(amount\);", growb) or "self.grow_count += 1" not in growb \
            or "self.alloc_count += current" not in growb or "self.cursor = self.elements.len()" not in growb:
        raise TieBroken("FreeList::grow_by no longer has the modelled shape (max(len, amount), cursor, counts)")
    vcb, _ = fn_body(closed, r"fn value_collection<'a>\(", what="value_collection")
    vcb = strip_rust_comments(vcb)
    pcts = re.findall(r"memory_free_list\.percent_full\(\)\s*>\s*([0-9.]+)\s*\|\|\s*force", vcb)
    if len(pcts) != 2 or len(set(pcts)) != 1:
        raise TieBroken("value_collection: expected two identical `percent_full() > x || force` tests, found %s" % pcts)
    facts["full_pct"] = int(round(float(pcts[0]) * 100))
    if not re.search(r"if self\.memory_free_list\.grow_count > RESET_LIMIT \{\s*self\.memory_free_list\.compact\(\);\s*\} else \{\s*self\.memory_free_list\.grow\(\);", vcb):
        raise TieBroken("value_collection: grow/compact policy no longer has the modelled shape")
    vecb, _ = fn_body(closed, r"fn vector_collection<'a>\(", what="vector_collection")
    vecb = strip_rust_comments(vecb)
    m1 = re.search(r"vector_free_list\.percent_full\(\)\s*>\s*([0-9.]+)\s*&&\s*self\.vector_free_list\.should_run_weak", vecb)
    m2 = re.search(r"vector_free_list\.percent_full\(\)\s*>\s*([0-9.]+)\s*\{\s*self\.vector_free_list\.should_run_weak = false", vecb)
    p3 = re.findall(r"vector_free_list\.percent_full\(\)\s*>\s*([0-9.]+)\s*\|\|\s*force", vecb)
    if not m1 or not m2 or len(p3) != 2 or len(set(p3)) != 1:
        raise TieBroken("vector_collection thresholds not found")
    facts["vec_weak_pct"] = int(round(float(m1.group(1)) * 100))
    facts["vec_weak_off_pct"] = int(round(float(m2.group(1)) * 100))
    facts["vec_full_pct"] = int(round(float(p3[0]) * 100))
    # ---- kinds and visitor arms
    kinds = steelval_kinds(rvals)
    names = [k for k, _ in kinds]
    can = {}
    for k, ty in kinds:
        if ty not in PAYLOAD_HOLDS_VALUES:
            raise TieBroken("SteelVal::%s has payload type `%s` which the translator cannot classify" % (k, ty))
        can[k] = PAYLOAD_HOLDS_VALUES[ty]
    # parallel marker (the one a `sync` build runs): from_value arms, push_back filter, visit arms
    fv, _ = fn_body(rvals, r"pub\(crate\) fn from_value\(value: &SteelVal\) -> Option<Self>", what="SteelValPointer::from_value")
    fv = strip_rust_comments(fv)
    ptr_kinds = set(re.findall(r"(?:SteelVal::)?([A-Z][A-Za-z0-9]*)\([a-z_]+\)\s*=>\s*Some\(", fv))
    par_trait = block_after(cycles, r"pub\(crate\) trait BreadthFirstSearchSteelValReferenceVisitor2<'a>", "reference visitor trait")
    par_dispatch = visit_dispatch(par_trait)
    par_impl = block_after(closed, r"impl<'a> BreadthFirstSearchSteelValReferenceVisitor2<'a> for MarkAndSweepContextRefQueue<'a>", "parallel marker impl")
    par_arms = impl_arms(par_impl)
    par_skip = skip_list(par_impl)
    seq_trait = block_after(cycles, r"pub trait BreadthFirstSearchSteelValVisitor\s*\{", "visitor trait")
    seq_dispatch = visit_dispatch(seq_trait)
    seq_impl = block_after(closed, r"impl<'a> BreadthFirstSearchSteelValVisitor for MarkAndSweepContext<'a>", "sequential marker impl")
    seq_arms = impl_arms(seq_impl)
    seq_skip = skip_list(seq_impl)
    par, seq = {}, {}
    for k in names:
        par[k] = (k in ptr_kinds) and (k not in par_skip) and par_arms.get(par_dispatch.get(k, ""), False)
        seq[k] = (k not in seq_skip) and seq_arms.get(seq_dispatch.get(k, ""), False)
    if not any(par.values()) or not any(seq.values()):
        raise TieBroken("no traversing visitor arm recognised (parser out of date)")
    facts["kinds"] = names
    facts["can_contain"] = [k for k in names if can[k]]
    facts["marker_par"] = [k for k in names if par[k]]
    facts["marker_seq"] = [k for k in names if seq[k]]
    facts.update(marker_queue_facts(closed, cycles))
    # ---- root sets pushed by Heap::mark
    heap_impl = block_after(closed, r"\nimpl Heap\s*\{", "impl Heap")
    markb, _ = fn_body(heap_impl, r"fn mark<'a>\(", what="Heap::mark")
    markb_nc = strip_rust_comments(markb)
    enum_b, _ = fn_body(vm, r"pub\(crate\) unsafe fn enumerate_stacks\(&mut self, context: &mut MarkAndSweepContext\)", what="enumerate_stacks")
    enum_b = strip_rust_comments(enum_b)
    rs = []
    if re.search(r"if let Some\(root_value\) = root_value \{\s*context\.push_back\(root_value\)", markb_nc) and \
            re.search(r"for value in root_vector \{\s*context\.push_back", markb_nc):
        rs.append("RsPending")
    if re.search(r"for root in roots \{\s*context\.push_back", markb_nc):
        rs.append("RsStack")
    if re.search(r"for function in function_stack \{\s*for value in function\.captures\(\) \{\s*context\.push_back", markb_nc):
        rs.append("RsFrames")
    if re.search(r"for root in globals \{\s*context\.push_back", markb_nc):
        rs.append("RsGlobals")
    if re.search(r"for root in tls \{\s*context\.push_back", markb_nc):
        rs.append("RsTls")
    if re.search(r"GLOBAL_ROOTS\s*\.lock\(\)\s*\.unwrap\(\)\s*\.roots\s*\.values\(\)\s*\.for_each\(\|value\| context\.push_back", markb_nc):
        rs.append("RsHost")
    if "synchronizer.enumerate_stacks(&mut context)" in markb_nc:
        if re.search(r"for value in &live_ctx\.stack \{\s*context\.push_back", enum_b):
            rs.append("RsThreadStack")
        if (re.search(r"for frame in &live_ctx\.stack_frames \{\s*for value in frame\.function\.captures\(\) \{\s*context\.push_back", enum_b)
                or re.search(r"for frame in &live_ctx\.stack_frames \{\s*for function in frame\.live_functions\(\) \{\s*for value in function\.captures\(\) \{\s*context\.push_back", enum_b)) \
                and re.search(r"for value in live_ctx\.current_frame\.function\.captures\(\)\s*\{\s*context\.push_back", enum_b):
            rs.append("RsThreadFrames")
        if re.search(r"for value in &live_ctx\.thread_local_storage \{\s*context\.push_back", enum_b):
            rs.append("RsThreadTls")
    facts["marked_root_sets"] = rs
    # the exception handler installed on a LIVE frame is a root as well (F49): StackFrame::live_functions yields the
    # frame's function and its handler closure, and every root hand-over of the frames goes through it
    lf = re.search(r"pub\(crate\) fn live_functions\(&self\) -> impl Iterator<Item = &ByteCodeLambda> \{(.*?)\n    \}", vm, re.S)
    lf_ok = bool(lf and re.search(r"attachments\s*\.as_ref\(\)\s*\.and_then\(\|x\| x\.handler\.as_ref\(\)\)", lf.group(1))
                 and re.search(r"once\(self\.function\.as_ref\(\)\)\s*\.chain\(handler\)", lf.group(1)))
    plain = len(re.findall(r"stack_frames\s*\.iter\(\)\s*\.map\(\|x\| x\.function\.as_ref\(\)\)", strip_rust_comments(vm)))
    through = len(re.findall(r"stack_frames\s*\.iter\(\)\s*\.flat_map\(\|x\| x\.live_functions\(\)\)", vm))
    threads = len(re.findall(r"for function in frame\.live_functions\(\)", enum_b))
    facts["frame_handlers_rooted"] = lf_ok and plain == 0 and through >= 4 and threads >= 1
    # is the root queue emptied once marking is over (sync build: explicit clear after MARKER.mark)?
    sync_mark = re.search(r"let count = MARKER\.mark\(context\.queue\);(.*?)#\[cfg\(not\(feature = \"sync\"\)\)\]", markb_nc, re.S)
    # a host root disappears from the root table when its token is dropped - unconditionally (a try_lock that gives up
    # leaves the entry behind for ever: everything it reaches is never reclaimed; seeded change C19-2)
    dr = re.search(r"impl Drop for RootToken \{(.*?)\n\}", closed, re.S)
    if not dr:
        raise TieBroken("impl Drop for RootToken not found in closed.rs")
    drb = strip_rust_comments(dr.group(1))
    facts["root_token_drop_frees"] = bool(re.search(r"GLOBAL_ROOTS\s*\.lock\(\)\s*\.unwrap\(\)\s*\.free\(self\)", drb)) and "try_lock" not in drb \
        and bool(re.search(r"ROOTS\.with\(\|x\| x\.borrow_mut\(\)\.free\(self\)\)", drb))
    facts["mark_queue_cleared"] = bool(sync_mark and re.search(r"context\.queue\.clear\(\)|self\.mark_and_sweep_queue\.clear\(\)", sync_mark.group(1)))
    # does the global-slot recycler put the mark bits back?
    recb, _ = fn_body(closed, r"pub fn recycle\(&mut self, roots: &mut \[SteelVal\], symbol_map: &mut SymbolMap, heap: &mut Heap\)", what="GlobalSlotRecycler::recycle")
    recb = strip_rust_comments(recb)
    restores = ("take_marks()" in recb and "restore_marks(" in recb and "recount()" not in recb and "mark_all_unreachable()" not in recb)
    old_shape = ("mark_all_unreachable()" in recb and "recount()" in recb)
    if not restores and not old_shape:
        raise TieBroken("GlobalSlotRecycler::recycle has neither of the two modelled shapes")
    facts["recycler_restores_marks"] = restores
    # allocate: writes the slot at the cursor only
    allocb, _ = fn_body(sync_impl, r"fn allocate\(&mut self, value: T\) -> HeapRef<T>", what="FreeList::allocate")
    if "let guard = &mut self.elements[self.cursor];" not in allocb or "self.alloc_count -= 1;" not in allocb:
        raise TieBroken("FreeList::allocate no longer has the modelled shape")
    return render_gen(facts), facts


def coq_bool(b):
    return "true" if b else "false"


def render_gen(f):
    ks = f["kinds"]
    out = ["(* GENERATED by checks/heapcommon.py from %s, %s, %s, %s -- do not edit. *)" % (CLOSED, RVALS, CYCLES, VM),
           "From Coq Require Import List Bool.", "Import ListNotations.", ""]
    for n in ("gc_threshold", "gc_grow_factor", "reset_limit", "extend_chunk", "init_slots", "full_pct",
              "vec_weak_pct", "vec_weak_off_pct", "vec_full_pct"):
        out.append("Definition %s : nat := %d." % (n, f[n]))
    out.append("")
    out.append("(* one constructor per variant of enum SteelVal (rvals.rs) *)")
    out.append("Inductive kind : Set := " + " | ".join("K" + k for k in ks) + ".")
    out.append("Definition all_kinds : list kind := [" + "; ".join("K" + k for k in ks) + "].")

    def pred(name, members, comment):
        out.append("(* %s *)" % comment)
        out.append("Definition %s (k : kind) : bool :=\n  match k with\n  | %s => true\n  | _ => false\n  end."
                   % (name, " | ".join("K" + k for k in members)) if members and len(members) < len(ks) else
                   "Definition %s (k : kind) : bool := %s." % (name, coq_bool(bool(members))))
    pred("can_contain", f["can_contain"], "kinds whose payload can hold other values (payload types of enum SteelVal)")
    pred("marker_par", f["marker_par"], "kinds the parallel marker traverses: SteelValPointer::from_value arm, not filtered by push_back, traversing visit_* arm of MarkAndSweepContextRefQueue")
    pred("marker_seq", f["marker_seq"], "kinds the sequential marker (MarkAndSweepContext) traverses")
    out.append("")
    out.append("Inductive rset : Set := " + " | ".join(ROOT_SETS) + ".")
    out.append("Definition all_rsets : list rset := [" + "; ".join(ROOT_SETS) + "].")
    out.append("(* root sets Heap::mark / Synchronizer::enumerate_stacks push on the mark queue *)")
    out.append("Definition marked_root_sets : list rset := [" + "; ".join(f["marked_root_sets"]) + "].")
    out.append("(* the handler installed on a live frame is handed over as a root together with the frame's function *)")
    out.append("Definition frame_handlers_rooted : bool := %s." % coq_bool(f["frame_handlers_rooted"]))
    out.append("(* Heap::mark empties the root queue after marking (sync build) *)")
    out.append("Definition mark_queue_cleared : bool := %s." % coq_bool(f["mark_queue_cleared"]))
    out.append("(* dropping a host root token removes its entry from the root table under a blocking lock *)")
    out.append("Definition root_token_drop_frees : bool := %s." % coq_bool(f["root_token_drop_frees"]))
    out.append("(* work queue of the parallel marker (MarkAndSweepContextRefQueue::push_back / pop_front, ParallelMarker::mark / new):")
    out.append("   capacity of a worker's local queue; the local-queue-full path of push_back enqueues the pushed value (on the shared")
    out.append("   queue); the other path enqueues it (on the local queue); the drain loop pops both queues until both are empty;")
    out.append("   every root is put on the shared queue *)")
    out.append("Definition pq_local_capacity : nat := %d." % f["pq_local_capacity"])
    for n in ("pq_spill_enqueues", "pq_local_enqueues", "pq_drain_both", "pq_roots_enqueued"):
        out.append("Definition %s : bool := %s." % (n, coq_bool(f[n])))
    out.append("(* GlobalSlotRecycler::recycle puts the heap mark bits back (take_marks / restore_marks) *)")
    out.append("Definition recycler_restores_marks : bool := %s." % coq_bool(f["recycler_restores_marks"]))
    return "\n".join(out) + "\n"


# ------------------------------------------------------------------------------------------------
# heap scripts: abstract operations, reference store (oracle), renderers
#
# value expression (vx):  ("atom", n) | ("reg", set, k) | ("node", kind, [vx]) | ("get", vx, i)
#   set: "g" global register, "t" thread-local slot, "s" stack slot of a scenario (model only)
# step:  ("alloc_box", dst, vx) | ("alloc_vec", dst, [vx]) | ("store", vx_cell, i, vx) | ("set", dst, vx)
#        | ("collect",) | ("churn", n) | ("cyc", length)
#        | ("hold", how, vx, [inner steps])      how in HOLDERS: the value is kept ONLY by that holder
NREG_G, NREG_T = 6, 2
NODE_KINDS = ["ListV", "Pair", "VectorV", "HashMapV", "CustomStruct", "Closure"]
HOLDERS = ["let", "arg", "kont", "handler", "thread"]
DEPTH = 5

PRELUDE = r"""
(define (c04-join l) (if (null? l) "" (if (null? (cdr l)) (car l) (string-append (car l) " " (c04-join (cdr l))))))
(struct c04-hold (a b))
(define (c04-shows l d) (if (null? l) '() (cons (c04-show (car l) d) (c04-shows (cdr l) d))))
(define (c04-many l d) (c04-join (c04-shows l d)))
(define (c04-show v d)
  (cond [(= d 0) "~"]
        [(integer? v) (number->string v)]
        [(mutable-vector? v) (string-append "<" (c04-many (mutable-vector->list v) (- d 1)) ">")]
        [(c04-hold? v) (string-append "(" (c04-many (list (c04-hold-a v) (c04-hold-b v)) (- d 1)) ")")]
        [(list? v) (string-append "(" (c04-many v (- d 1)) ")")]
        [(pair? v) (string-append "(" (c04-many (list (car v) (cdr v)) (- d 1)) ")")]
        [(immutable-vector? v) (string-append "(" (c04-many (immutable-vector->list v) (- d 1)) ")")]
        [(hash? v) (string-append "(" (c04-many (hash-values->list v) (- d 1)) ")")]
        [(procedure? v) (string-append "(" (c04-many (v) (- d 1)) ")")]
        [else (string-append "[" (c04-show (unbox v) (- d 1)) "]")]))
(define g0 0) (define g1 0) (define g2 0) (define g3 0) (define g4 0) (define g5 0)
(set! g0 0) (set! g1 0) (set! g2 0) (set! g3 0) (set! g4 0) (set! g5 0)
(define t0 (make-tls 0))
(define t1 (make-tls 0))
(define c04-kreg 0)
(set! c04-kreg 0)
(define (c04-capture v)
  (let ((x v)) (let ((m (call/cc (lambda (k) (set! c04-kreg k) 'first)))) (if (eq? m 'first) 'first (string-append "(" (c04-show x (- DEPTH 1)) ")")))))
(define (c04-keep-arg x thunk) (let ((r (thunk))) (string-append r " " (c04-show x DEPTH))))
(define (c04-churn n) (if (= n 0) 0 (begin (box n) (c04-churn (- n 1)))))
(define (c04-cyc-loop i len first prev) (if (= i len) (set-box! first prev) (c04-cyc-loop (+ i 1) len first (box prev))))
(define (c04-cyc len) (let ((first (box 0))) (begin (c04-cyc-loop 1 len first first) 0)))
(define (c04-flist l) (string-append (number->string (list-ref l 0)) " " (number->string (list-ref l 1)) " " (number->string (list-ref l 2)) " " (number->string (list-ref l 4))))
(define (c04-stats) (let ((s (#%verif-heap-stats))) (string-append (c04-flist (list-ref s 0)) " | " (c04-flist (list-ref s 1)) " |")))
(define (c04-counters) (list-ref (#%verif-heap-stats) 2))
(define (c04-regs) (c04-join (list (c04-show g0 DEPTH) (c04-show g1 DEPTH) (c04-show g2 DEPTH) (c04-show g3 DEPTH) (c04-show g4 DEPTH) (c04-show g5 DEPTH)
                                   (c04-show (get-tls t0) DEPTH) (c04-show (get-tls t1) DEPTH))))
(define (c04-obs) (string-append (c04-stats) " " (c04-regs)))
""".replace("DEPTH", str(DEPTH))


class RefStore:
    """The property oracle: cells keep the last value stored; nothing else ever changes them."""

    def __init__(self):
        self.cells = {}       # cid -> ("box"|"vec", [values])
        self.next = 0
        self.regs = {("g", k): ("atom", 0) for k in range(NREG_G)}
        self.regs.update({("t", k): ("atom", 0) for k in range(NREG_T)})
        self.regs[("s", 0)] = ("atom", 0)

    def ev(self, vx):
        t = vx[0]
        if t == "atom":
            return vx
        if t == "reg":
            return self.regs[(vx[1], vx[2])]
        if t == "node":
            return ("node", vx[1], [self.ev(c) for c in vx[2]])
        if t == "get":
            c = self.ev(vx[1])
            assert c[0] in ("box", "vec"), c
            return self.cells[c[1]][1][vx[2]]
        raise ValueError(vx)

    def alloc(self, kind, vals):
        cid = self.next
        self.next += 1
        self.cells[cid] = (kind, list(vals))
        return (kind, cid)

    def show(self, v, d=DEPTH):
        if d == 0:
            return "~"
        if v[0] == "atom":
            return str(v[1])
        if v[0] == "box":
            return "[" + " ".join(self.show(x, d - 1) for x in self.cells[v[1]][1]) + "]"
        if v[0] == "vec":
            return "<" + " ".join(self.show(x, d - 1) for x in self.cells[v[1]][1]) + ">"
        return "(" + " ".join(self.show(x, d - 1) for x in v[2]) + ")"

    def regs_str(self):
        return " ".join(self.show(self.regs[("g", k)]) for k in range(NREG_G)) + " " + \
               " ".join(self.show(self.regs[("t", k)]) for k in range(NREG_T))

    def reachable(self, extra=()):
        seen = set()
        todo = list(self.regs.values()) + list(extra)
        while todo:
            v = todo.pop()
            if v[0] in ("box", "vec"):
                if v[1] not in seen:
                    seen.add(v[1])
                    todo.extend(self.cells[v[1]][1])
            elif v[0] == "node":
                todo.extend(v[2])
        nb = sum(1 for c in seen if self.cells[c][0] == "box")
        return nb, len(seen) - nb

    def apply(self, st):
        """Apply a plain step; returns nothing (the contents part of the observation is regs_str())."""
        t = st[0]
        if t == "alloc_box":
            self.regs[st[1]] = self.alloc("box", [self.ev(st[2])])
        elif t == "alloc_vec":
            self.regs[st[1]] = self.alloc("vec", [self.ev(x) for x in st[2]])
        elif t == "store":
            c = self.ev(st[1])
            v = self.ev(st[3])
            self.cells[c[1]][1][st[2] if c[0] == "vec" else 0] = v
        elif t == "set":
            self.regs[st[1]] = self.ev(st[2])
        elif t in ("collect", "churn", "cyc"):
            pass
        else:
            raise ValueError(st)


# ---- Steel renderer
def steel_vx(vx):
    t = vx[0]
    if t == "atom":
        return str(vx[1])
    if t == "reg":
        return {"g": "g%d", "t": "(get-tls t%d)", "s": "c04-tmp%d"}[vx[1]] % vx[2]
    if t == "get":
        return ("(c04-get %s %d)" % (steel_vx(vx[1]), vx[2]))
    kind, cs = vx[1], [steel_vx(c) for c in vx[2]]
    if kind == "ListV":
        return "(list %s)" % " ".join(cs)
    if kind == "Pair":
        return "(cons %s %s)" % (cs[0], cs[1])
    if kind == "VectorV":
        return "(immutable-vector %s)" % " ".join(cs)
    if kind == "HashMapV":
        return "(hash 'k %s)" % cs[0]
    if kind == "CustomStruct":
        return "(c04-hold %s %s)" % (cs[0], cs[1])
    if kind == "Closure":
        names = ["c04c%d" % i for i in range(len(cs))]
        return "(let (%s) (lambda () (list %s)))" % (" ".join("(%s %s)" % (n, c) for n, c in zip(names, cs)), " ".join(names))
    raise ValueError(kind)


PRELUDE += "(define (c04-get c i) (if (mutable-vector? c) (vector-ref c i) (unbox c)))\n"


def steel_dst(dst, v):
    return ("(set! g%d %s)" % (dst[1], v)) if dst[0] == "g" else ("(set-tls! t%d %s)" % (dst[1], v))


def steel_plain(st):
    t = st[0]
    if t == "alloc_box":
        return steel_dst(st[1], "(box %s)" % steel_vx(st[2]))
    if t == "alloc_vec":
        return steel_dst(st[1], "(vector %s)" % " ".join(steel_vx(x) for x in st[2]))
    if t == "store":
        return "(c04-put %s %d %s)" % (steel_vx(st[1]), st[2], steel_vx(st[3]))
    if t == "set":
        return steel_dst(st[1], steel_vx(st[2]))
    if t == "collect":
        return "(#%gc-collect)"
    if t == "churn":
        return "(c04-churn %d)" % st[1]
    if t == "cyc":
        return "(c04-cyc %d)" % st[1]
    raise ValueError(st)


PRELUDE += "(define (c04-put c i v) (if (mutable-vector? c) (vector-set! c i v) (set-box! c v)))\n"


def steel_step(st):
    """One top-level form whose value is the observation string."""
    if st[0] != "hold":
        return "(let ((c04-ignore %s)) (c04-obs))" % steel_plain(st)
    how, vx, inner = st[1], st[2], st[3]
    body = "(begin %s (c04-obs))" % " ".join(steel_plain(x) for x in inner) if inner else "(c04-obs)"
    v = steel_vx(vx)
    if how == "let":
        return "(let ((c04-tmp0 %s)) (let ((c04-r %s)) (string-append c04-r \" \" (c04-show c04-tmp0 %d))))" % (v, body, DEPTH)
    if how == "arg":
        return "(c04-keep-arg %s (lambda () %s))" % (v, body)
    if how == "kont":
        return ("(let ((c04-pre (box \"\"))) (let ((c04-msg (c04-capture %s))) (if (eq? c04-msg 'first) "
                "(begin (set-box! c04-pre %s) (c04-kreg 'again)) (let ((c04-out (string-append (unbox c04-pre) \" \" c04-msg))) (begin (set! c04-kreg 0) c04-out)))))" % (v, body))
    if how == "handler":
        return ("(let ((c04-pre (box \"\"))) (let ((c04-h (let ((c04-c %s)) (lambda (e) (string-append (unbox c04-pre) \" (\" (c04-show c04-c %d) \")\"))))) "
                "(with-handler c04-h (begin (set-box! c04-pre %s) (error \"c04\")))))" % (v, DEPTH - 1, body))
    if how == "thread":
        return ("(let ((c04-tmp0 %s)) (let ((c04-r (thread-join! (spawn-native-thread (lambda () %s))))) "
                "(string-append c04-r \" \" (c04-show c04-tmp0 %d))))" % (v, body, DEPTH))
    raise ValueError(how)


# ---- Coq renderer
RSET = {"g": "RsGlobals", "t": "RsTls", "s": "RsStack", "ts": "RsThreadStack"}


def coq_vx(vx, tmpset="s"):
    t = vx[0]
    if t == "atom":
        return "(RAtom (%d))" % vx[1]
    if t == "reg":
        return "(RRoot %s %d)" % (RSET[vx[1]], vx[2])
    if t == "get":
        return "(RGet %s %d)" % (coq_vx(vx[1]), vx[2])
    return "(RNode K%s [%s])" % (vx[1], "; ".join(coq_vx(c) for c in vx[2]))


class ModelRender:
    """Renders steps to [hop] terms; decides which allocations are forced (GC_EVERY = n, counter a0)."""

    def __init__(self, every, a0):
        self.every = every
        self.count = a0
        self.allocs = 0

    def force(self):
        self.count += 1
        self.allocs += 1
        return "true" if (self.every and self.count % self.every == 0) else "false"

    def dst(self, d):
        return "%s %d" % (RSET[d[0]], d[1])

    def plain(self, st):
        t = st[0]
        if t == "alloc_box":
            return ["OAllocBox %s %s %s" % (self.force(), self.dst(st[1]), coq_vx(st[2]))]
        if t == "alloc_vec":
            return ["OAllocVec %s %s [%s]" % (self.force(), self.dst(st[1]), "; ".join(coq_vx(x) for x in st[2]))]
        if t == "store":
            return ["OStore %s %d %s" % (coq_vx(st[1]), st[2], coq_vx(st[3]))]
        if t == "set":
            return ["OSetRoot %s %s" % (self.dst(st[1]), coq_vx(st[2]))]
        if t == "collect":
            return ["OCollect"]
        if t == "churn":
            out = []
            for i in range(st[1], 0, -1):
                out += ["OAllocBox %s RsStack 1 (RAtom (%d))" % (self.force(), i), "OSetRoot RsStack 1 (RAtom 0)"]
            return out
        if t == "cyc":
            out = ["OAllocBox %s RsStack 1 (RAtom 0)" % self.force(), "OSetRoot RsStack 2 (RRoot RsStack 1)"]
            for _ in range(1, st[1]):
                out.append("OAllocBox %s RsStack 2 (RRoot RsStack 2)" % self.force())
            out += ["OStore (RRoot RsStack 1) 0 (RRoot RsStack 2)", "OSetRoot RsStack 1 (RAtom 0)", "OSetRoot RsStack 2 (RAtom 0)"]
            return out
        raise ValueError(st)

    def step(self, st):
        """-> (ops before the observation, extra observed expression or None, ops after)"""
        if st[0] != "hold":
            return self.plain(st), None, []
        how, vx, inner = st[1], st[2], st[3]
        v = coq_vx(vx)
        if how in ("let", "arg"):
            pre = ["OSetRoot RsStack 0 %s" % v]
            obs, post = "(RRoot RsStack 0)", ["OSetRoot RsStack 0 (RAtom 0)"]
        elif how == "kont":       # the only holder is a continuation object kept in a global
            # (the scenario itself allocates one box for the text printed so far)
            pre = ["OAllocBox %s RsStack 3 (RAtom 0)" % self.force(), "OSetRoot RsGlobals 6 (RNode KContinuationFunction [%s])" % v]
            obs, post = "(RRoot RsGlobals 6)", ["OSetRoot RsGlobals 6 (RAtom 0)", "OSetRoot RsStack 3 (RAtom 0)"]
        elif how == "handler":    # a closure that is only referenced from the frame of with-handler
            pre = ["OAllocBox %s RsStack 3 (RAtom 0)" % self.force(), "OSetRoot RsStack 0 (RNode KClosure [%s])" % v]
            obs, post = "(RRoot RsStack 0)", ["OSetRoot RsStack 0 (RAtom 0)", "OSetRoot RsStack 3 (RAtom 0)"]
        else:                     # the holder is the stack of a thread other than the collecting one
            pre = ["OSetRoot RsThreadStack 0 %s" % v]
            obs, post = "(RRoot RsThreadStack 0)", ["OSetRoot RsThreadStack 0 (RAtom 0)"]
        for x in inner:
            pre += self.plain(x)
        return pre, obs, post


REG_OBS = ["(RRoot RsGlobals %d)" % k for k in range(NREG_G)] + ["(RRoot RsTls %d)" % k for k in range(NREG_T)]
COQ_HEADER = ("From Coq Require Import String List ZArith.\nImport ListNotations.\n"
              "From SV Require Import gen.Gen_C04 c04.Model_C04.\n")


def coq_cfg(chunk):
    return ("{| c_chunk := %d; c_reset_limit := reset_limit; c_full_pct := full_pct; c_vec_weak_pct := vec_weak_pct; "
            "c_vec_weak_off_pct := vec_weak_off_pct; c_vec_full_pct := vec_full_pct |}" % chunk)


def model_exprs(steps, init, every, a0, chunk):
    """One Coq string expression for the whole script (observations joined by " ## ") and the number of
    allocations the model performs."""
    mr = ModelRender(every, a0)
    items = []
    st0 = "(engine_state %d %d %d %d %d %d)" % init
    for st in steps:
        pre, obs, post = mr.step(st)
        es = REG_OBS + ([obs] if obs else [])
        items.append("([%s], [%s], [%s])" % ("; ".join(pre), "; ".join(es), "; ".join(post)))
    return "run_trace %s marker_par %d [%s] %s" % (coq_cfg(chunk), DEPTH, "; ".join(items), st0), mr.allocs


# ---- generator
def gen_vx(rng, ref, depth=0, want_cell=False):
    """A value expression that evaluates in the current reference store."""
    cells = [r for r, v in ref.regs.items() if v[0] in ("box", "vec") and r[0] != "s"]
    k = rng.random()
    if want_cell:
        return ("reg",) + rng.choice(cells) if cells else None
    if k < 0.25 or not cells and k < 0.6:
        return ("atom", rng.randint(1, 99))
    if k < 0.6 and cells:
        return ("reg",) + rng.choice(cells)
    if k < 0.7 and cells:
        r = rng.choice(cells)
        v = ref.regs[r]
        n = len(ref.cells[v[1]][1])
        if n:
            return ("get", ("reg",) + r, rng.randrange(n))
        return ("reg",) + r
    if depth >= 2:
        return ("atom", rng.randint(1, 99))
    kind = rng.choice(NODE_KINDS)
    arity = {"Pair": 2, "CustomStruct": 2, "HashMapV": 1}.get(kind, rng.randint(1, 3))
    cs = [gen_vx(rng, ref, depth + 1) for _ in range(arity)]
    if kind == "Pair":
        cs[1] = ("atom", rng.randint(1, 99))      # (cons x <list>) would print as a longer list
    return ("node", kind, cs)


def gen_dst(rng, tls=True):
    return ("g", rng.randrange(NREG_G)) if (rng.random() < 0.8 or not tls) else ("t", rng.randrange(NREG_T))


def gen_plain(rng, ref, allow_collect=True, tls=True):
    k = rng.random()
    _gen_dst = gen_dst
    gd = lambda r: _gen_dst(r, tls)
    if k < 0.3:
        return ("alloc_box", gd(rng), gen_vx(rng, ref))
    if k < 0.42:
        return ("alloc_vec", gd(rng), [gen_vx(rng, ref) for _ in range(rng.randint(1, 3))])
    if k < 0.6:
        c = gen_vx(rng, ref, want_cell=True)
        if c is None:
            return ("alloc_box", gd(rng), ("atom", rng.randint(1, 99)))
        v = ref.regs[(c[1], c[2])]
        n = len(ref.cells[v[1]][1])
        return ("store", c, rng.randrange(n) if v[0] == "vec" else 0, gen_vx(rng, ref))
    if k < 0.78:
        return ("set", gd(rng), gen_vx(rng, ref))
    if k < 0.84 and allow_collect:
        return ("collect",)
    if k < 0.93:
        return ("churn", rng.randint(1, 6))
    return ("cyc", rng.randint(1, 5))


def gen_script(rng, nsteps, holders=HOLDERS):
    ref = RefStore()
    steps = []
    for _ in range(nsteps):
        if rng.random() < 0.22 and holders:
            how = rng.choice(holders)
            # the held value: a fresh cell reachable from nowhere else is built by the holder expression itself
            # out of existing values: here a container around existing cells / atoms
            vx = gen_vx(rng, ref)
            inner = []
            for _ in range(rng.randint(1, 3)):
                x = gen_plain(rng, ref, tls=(how != "thread"))
                inner.append(x)
                ref.apply(x)
            steps.append(("hold", how, vx, inner))
        else:
            st = gen_plain(rng, ref)
            ref.apply(st)
            steps.append(st)
    return steps


def oracle_run(steps):
    """Expected contents part of each observation (registers, then the held value for holder steps)."""
    ref = RefStore()
    out = []
    live = []
    for st in steps:
        if st[0] == "hold":
            held = ref.ev(st[2])
            for x in st[3]:
                ref.apply(x)
            if st[1] in ("kont", "handler"):
                out.append(ref.regs_str() + " (" + ref.show(held, DEPTH - 1) + ")")
            else:
                out.append(ref.regs_str() + " " + ref.show(held))
            live.append(ref.reachable())
        else:
            ref.apply(st)
            out.append(ref.regs_str())
            live.append(ref.reachable())
    return out, live


def parse_stats(s):
    """'((I.. ..) (..) (..))' canonical rendering of #%verif-heap-stats -> three int lists"""
    groups = re.findall(r"\(((?:I-?\d+\s*)+)\)", s)
    return [[int(x[1:]) for x in g.split()] for g in groups]


# ------------------------------------------------------------------------------------------------
# wide containers: more pending children than a marker's local queue holds (pq_local_capacity = 4096)
WIDE_PRELUDE = r"""
(define (w-elem kind i)
  (cond [(= kind 0) (box i)]
        [(= kind 1) (vector i 0)]
        [else (let ((n i)) (lambda () (begin (set! n (+ n 0)) n)))]))
(define (w-val kind e) (cond [(= kind 0) (unbox e)] [(= kind 1) (vector-ref e 0)] [else (e)]))
(define (w-ok kind e i) (equal? (w-val kind e) i))
(define (w-list-from kind base n acc) (if (= n 0) acc (w-list-from kind base (- n 1) (cons (w-elem kind (+ base (- n 1))) acc))))
(define (w-list kind n) (w-list-from kind 0 n '()))
(define (w-bad-list kind l i bad) (if (null? l) bad (w-bad-list kind (cdr l) (+ i 1) (if (w-ok kind (car l) i) bad (+ bad 1)))))
(define (w-fill v kind i n) (if (= i n) v (begin (vector-set! v i (w-elem kind i)) (w-fill v kind (+ i 1) n))))
(define (w-bad-vec kind v i n bad) (if (= i n) bad (w-bad-vec kind v (+ i 1) n (if (w-ok kind (vector-ref v i) i) bad (+ bad 1)))))
(define (w-hash kind i n h) (if (= i n) h (w-hash kind (+ i 1) n (hash-insert h i (w-elem kind i)))))
(define (w-bad-hash kind h i n bad) (if (= i n) bad (w-bad-hash kind h (+ i 1) n (if (w-ok kind (hash-ref h i) i) bad (+ bad 1)))))
(define (w-rows kind rows cols r acc) (if (= r 0) acc (w-rows kind rows cols (- r 1) (cons (w-list-from kind (* (- r 1) cols) cols '()) acc))))
(define (w-bad-rows kind rows cols r bad) (if (null? rows) bad (w-bad-rows kind (cdr rows) cols (+ r 1) (w-bad-list kind (car rows) (* r cols) bad))))
(define (w-churn n) (if (= n 0) 0 (begin (box n) (if (= (modulo n 4) 0) (vector n n) 0) (w-churn (- n 1)))))
(define (w-total) (let ((s (#%verif-heap-stats))) (+ (car (car s)) (car (car (cdr s))))))
(define (w-sample) (let ((s (#%verif-heap-stats))) (list (list-ref s 0) (list-ref s 1))))
(define w-root 0)
(set! w-root 0)
(define w-kreg 0)
(set! w-kreg 0)
(define (w-capture kind v) (let ((x v)) (let ((m (call/cc (lambda (k) (set! w-kreg k) 'first)))) (if (eq? m 'first) 'first (w-bad-list kind x 0 0)))))
"""

WIDE_FAMILIES = ["mvec", "ivec", "list", "hash", "closure", "matrix", "wide-in-wide", "thread", "kont"]
WIDE_KINDS = {0: "box", 1: "mutable-vector", 2: "counter-closure"}


def wide_case(family, kind, n):
    """units of one wide scenario; the units named in `checks` have to evaluate to 0 (number of elements that
    do not hold their own index)"""
    # twice the heap (bounded: with forced / small-chunk collections the slot vector doubles at every collection)
    churn = "(w-churn (min 250000 (* 2 (w-total))))"
    if family in ("thread", "kont"):
        if family == "thread":
            body = ("(let ((l (w-list %d %d))) (begin (thread-join! (spawn-native-thread (lambda () (begin (#%%gc-collect) %s 0)))) "
                    "(#%%gc-collect) (w-bad-list %d l 0 0)))" % (kind, n, churn, kind))
        else:
            body = ("(let ((msg (w-capture %d (w-list %d %d)))) (if (eq? msg 'first) (begin (#%%gc-collect) %s (#%%gc-collect) (w-kreg 'again)) "
                    "(begin (set! w-kreg 0) msg)))" % (kind, kind, n, churn))
        return ["(begin (#%gc-collect) (w-sample))", body, "(c04-counters)"], [1]
    if family == "mvec":
        build, check = "(w-fill (make-vector %d 0) %d 0 %d)" % (n, kind, n), "(w-bad-vec %d w-root 0 %d 0)" % (kind, n)
    elif family == "ivec":
        build, check = "(list->vector (w-list %d %d))" % (kind, n), "(w-bad-list %d (immutable-vector->list w-root) 0 0)" % kind
    elif family == "list":
        build, check = "(w-list %d %d)" % (kind, n), "(w-bad-list %d w-root 0 0)" % kind
    elif family == "hash":
        build, check = "(w-hash %d 0 %d (hash))" % (kind, n), "(w-bad-hash %d w-root 0 %d 0)" % (kind, n)
    elif family == "closure":
        build, check = "(let ((l (w-list %d %d))) (lambda () l))" % (kind, n), "(w-bad-list %d (w-root) 0 0)" % kind
    elif family == "matrix":
        build, check = "(w-rows %d 70 70 70 '())" % kind, "(w-bad-rows %d w-root 70 0 0)" % kind
    elif family == "wide-in-wide":
        rows = max(4200, n // 2)
        build, check = "(w-rows %d %d 2 %d '())" % (kind, rows, rows), "(w-bad-rows %d w-root 2 0 0)" % kind
    else:
        raise ValueError(family)
    units = ["(begin (#%gc-collect) (w-sample))",
             "(let ((ignore (set! w-root %s))) 0)" % build,
             "(begin (#%gc-collect) " + check + ")",
             "(let ((ignore " + churn + ")) " + check + ")",
             "(begin (#%gc-collect) (let ((ignore (w-churn 3000))) " + check + "))",
             "(c04-counters)"]
    return units, [2, 3, 4]


def run_wide(ck, picks, stats, tag="wide"):
    """picks: list of (family, kind, n, env dict).  Oracle: every element holds its own index; no access through a
    handle whose slot is flagged free / dropped."""
    by_env = {}
    for p in picks:
        by_env.setdefault(json.dumps(p[3], sort_keys=True), []).append(p)
    for ekey, ps in by_env.items():
        env = json.loads(ekey)
        cases = [wide_case(f, k, n) for f, k, n, _ in ps]
        res = ck.eval_cases([u for u, _ in cases], prelude=PRELUDE + WIDE_PRELUDE, env=env, fresh=True, batch=1, timeout_per_batch=400)
        for (f, k, n, _), (units, checks), r in zip(ps, cases, res):
            ck.cov["evaluations"] += 1
            stats.setdefault("wide", {})
            stats["wide"]["%s/%s" % (f, WIDE_KINDS[k])] = stats["wide"].get("%s/%s" % (f, WIDE_KINDS[k]), 0) + 1
            case = {"kind": "wide", "family": f, "element": WIDE_KINDS[k], "elem_kind": k, "n": n, "env": env, "units": units}
            outs = []
            for i, o in enumerate(r):
                outs.append(o["ok"][-1] if "ok" in o and o["ok"] else json.dumps(o)[:200])
            bad = None
            if len(r) != len(units):
                bad = "engine stopped after %d of %d units: %s" % (len(r), len(units), outs[-1:] if outs else r)
            else:
                for i in checks:
                    if outs[i] != "I0":
                        bad = "unit %d reports %s elements that do not hold their own index" % (i, outs[i])
                        break
                if bad is None:
                    c = [int(x[1:]) for x in outs[-1].strip("()").split()] if outs[-1].startswith("(I") else None
                    if c is None:
                        bad = "no counters: %s" % outs[-1]
                    elif c[3] or c[4]:
                        bad = "%d access(es) through a handle whose slot is flagged free, %d through a dropped slot" % (c[3], c[4])
            if bad:
                ck.failing_input("wide container (%s of %d %ss, env %s): %s" % (f, n, WIDE_KINDS[k], env, bad), dict(case, outcome=outs), tag=tag)
            elif len(ck.cov["samples"]) < 6:
                ck.sample({"wide": f, "element": WIDE_KINDS[k], "n": n, "env": env, "outcome": outs})


def wide_picks(rng, tier, force_all=False):
    # default geometry (explicit collections), small chunks (threshold-triggered full collections while the container is
    # being built), periodic forced full collections
    envs = [{}, {"STEEL_JIT": "false"}, {"STEEL_VERIF_GC_CHUNK": "2048"}, {"STEEL_VERIF_GC_CHUNK": "1024", "STEEL_VERIF_GC_EVERY": "2999"},
            {"STEEL_VERIF_GC_CHUNK": "1024", "STEEL_VERIF_GC_EVERY": "4999", "STEEL_JIT": "false"}]
    if tier == "quick" and not force_all:
        fams = rng.sample(WIDE_FAMILIES, 2)
        return [(f, rng.choice([0, 0, 1, 2]), rng.randint(5000, 12000), rng.choice(envs)) for f in fams]
    out = []
    for f in WIDE_FAMILIES:
        for k in (WIDE_KINDS if not force_all else [0]):
            out.append((f, k, rng.randint(5000, 12000), rng.choice(envs)))
    return out
