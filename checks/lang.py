"""MiniSteel programs: AST, renderers (Steel source text / Coq term for coq/lib/Lang.v), generator.

AST nodes are tuples:
  ("int", n) ("bool", b) ("str", s) ("sym", s) ("void",) ("char", c)
  ("quote", datum)            datum: ("dlist", [..]) | ("dimp", [..], tail) | ("dvec", [..]) | const node
  ("var", x) ("lam", [params], rest|None, [body]) ("app", f, [args]) ("if", c, t, e) ("set", x, e)
  ("begin", [es]) ("let", [(x, e)], [body]) ("let*", ..) ("letrec", ..) ("nlet", f, [(x, e)], [body])
  ("and", [es]) ("or", [es]) ("when", c, [es]) ("unless", c, [es]) ("cond", [(c, [body])], els|None)
  ("define", x, e) ("handler", h, [body])
A program (evaluation unit) is a list of top-level forms; a history is a list of units.
"""
import random

# ----------------------------------------------------------------------------- Steel source


def steel_str(s):
    out = ['"']
    for ch in s:
        if ch == '"':
            out.append('\\"')
        elif ch == "\\":
            out.append("\\\\")
        elif ch == "\n":
            out.append("\\n")
        elif ch == "\t":
            out.append("\\t")
        else:
            out.append(ch)
    out.append('"')
    return "".join(out)


def steel_datum(d):
    t = d[0]
    if t == "dlist":
        return "(" + " ".join(steel_datum(x) for x in d[1]) + ")"
    if t == "dimp":
        return "(" + " ".join(steel_datum(x) for x in d[1]) + " . " + steel_datum(d[2]) + ")"
    if t == "dvec":
        return "#(" + " ".join(steel_datum(x) for x in d[1]) + ")"
    if t == "sym":
        return d[1]
    return to_steel(d)


def to_steel(e):
    t = e[0]
    if t == "int":
        return str(e[1])
    if t == "bool":
        return "#t" if e[1] else "#f"
    if t == "str":
        return steel_str(e[1])
    if t == "sym":
        return "'" + e[1]
    if t == "void":
        return "void"
    if t == "char":
        return "#\\" + e[1]
    if t == "quote":
        return "'" + steel_datum(e[1])
    if t == "var":
        return e[1]
    if t == "lam":
        ps = " ".join(e[1])
        if e[2] is not None:
            ps = (ps + " . " + e[2]) if e[1] else e[2]
            head = "(" + ps + ")" if e[1] else ps
        else:
            head = "(" + ps + ")"
        return "(lambda " + head + " " + " ".join(to_steel(b) for b in e[3]) + ")"
    if t == "app":
        return "(" + " ".join([to_steel(e[1])] + [to_steel(a) for a in e[2]]) + ")"
    if t == "if":
        return "(if %s %s %s)" % (to_steel(e[1]), to_steel(e[2]), to_steel(e[3]))
    if t == "set":
        return "(set! %s %s)" % (e[1], to_steel(e[2]))
    if t == "begin":
        return "(begin " + " ".join(to_steel(x) for x in e[1]) + ")"
    if t in ("let", "let*", "letrec"):
        bs = " ".join("[%s %s]" % (x, to_steel(v)) for x, v in e[1])
        return "(%s (%s) %s)" % (t, bs, " ".join(to_steel(b) for b in e[2]))
    if t == "nlet":
        bs = " ".join("[%s %s]" % (x, to_steel(v)) for x, v in e[2])
        return "(let %s (%s) %s)" % (e[1], bs, " ".join(to_steel(b) for b in e[3]))
    if t in ("and", "or"):
        return "(" + " ".join([t] + [to_steel(x) for x in e[1]]) + ")"
    if t in ("when", "unless"):
        return "(%s %s %s)" % (t, to_steel(e[1]), " ".join(to_steel(x) for x in e[2]))
    if t == "cond":
        cl = " ".join("[%s %s]" % (to_steel(c), " ".join(to_steel(b) for b in body)) for c, body in e[1])
        if e[2] is not None:
            cl += " [else %s]" % " ".join(to_steel(b) for b in e[2])
        return "(cond %s)" % cl
    if t == "define":
        v = e[2]
        return "(define %s %s)" % (e[1], to_steel(v))
    if t == "handler":
        return "(with-handler %s %s)" % (to_steel(e[1]), " ".join(to_steel(b) for b in e[2]))
    raise ValueError(t)


def unit_to_steel(forms):
    return "\n".join(to_steel(f) for f in forms)

# ----------------------------------------------------------------------------- Coq term


def cq_str(s):
    out = []
    for ch in s:
        o = ord(ch)
        if ch == '"':
            out.append('""')
        elif 32 <= o < 127:
            out.append(ch)
        else:
            # non printable: splice with String (ascii_of_nat n)
            out.append('" ++ String (Ascii.ascii_of_nat %d) "' % o)
    return '("' + "".join(out) + '")%string'


def cq_list(xs):
    return "[" + "; ".join(xs) + "]"


def cq_const(e):
    t = e[0]
    if t == "int":
        return "CInt (%d)%%Z" % e[1]
    if t == "bool":
        return "CBool %s" % ("true" if e[1] else "false")
    if t == "str":
        return "CStr %s" % cq_str(e[1])
    if t == "sym":
        return "CSym %s" % cq_str(e[1])
    if t == "void":
        return "CVoid"
    if t == "char":
        return "CChar (Ascii.ascii_of_nat %d)" % ord(e[1])
    raise ValueError(t)


def cq_datum(d):
    t = d[0]
    if t == "dlist":
        return "DList " + cq_list([cq_datum(x) for x in d[1]])
    if t == "dimp":
        return "DImproper %s (%s)" % (cq_list([cq_datum(x) for x in d[1]]), cq_datum(d[2]))
    if t == "dvec":
        return "DVec " + cq_list([cq_datum(x) for x in d[1]])
    return "DConst (%s)" % cq_const(d)


def cq_binds(bs):
    return cq_list(["(%s, %s)" % (cq_str(x), to_coq(v)) for x, v in bs])


def cq_body(es):
    return cq_list([to_coq(x) for x in es])


def to_coq(e):
    t = e[0]
    if t in ("int", "bool", "str", "sym", "void", "char"):
        return "Const (%s)" % cq_const(e)
    if t == "quote":
        return "Quote (%s)" % cq_datum(e[1])
    if t == "var":
        return "Var %s" % cq_str(e[1])
    if t == "lam":
        rest = "None" if e[2] is None else "(Some %s)" % cq_str(e[2])
        return "Lam %s %s %s" % (cq_list([cq_str(p) for p in e[1]]), rest, cq_body(e[3]))
    if t == "app":
        return "App (%s) %s" % (to_coq(e[1]), cq_body(e[2]))
    if t == "if":
        return "If (%s) (%s) (%s)" % (to_coq(e[1]), to_coq(e[2]), to_coq(e[3]))
    if t == "set":
        return "SetBang %s (%s)" % (cq_str(e[1]), to_coq(e[2]))
    if t == "begin":
        return "Begin %s" % cq_body(e[1])
    if t == "let":
        return "Let %s %s" % (cq_binds(e[1]), cq_body(e[2]))
    if t == "let*":
        return "LetStar %s %s" % (cq_binds(e[1]), cq_body(e[2]))
    if t == "letrec":
        return "Letrec %s %s" % (cq_binds(e[1]), cq_body(e[2]))
    if t == "nlet":
        return "NamedLet %s %s %s" % (cq_str(e[1]), cq_binds(e[2]), cq_body(e[3]))
    if t == "and":
        return "And %s" % cq_body(e[1])
    if t == "or":
        return "Or %s" % cq_body(e[1])
    if t == "when":
        return "When (%s) %s" % (to_coq(e[1]), cq_body(e[2]))
    if t == "unless":
        return "Unless (%s) %s" % (to_coq(e[1]), cq_body(e[2]))
    if t == "cond":
        cl = cq_list(["(%s, %s)" % (to_coq(c), cq_body(b)) for c, b in e[1]])
        els = "None" if e[2] is None else "(Some %s)" % cq_body(e[2])
        return "Cond %s %s" % (cl, els)
    if t == "define":
        return "Define %s (%s)" % (cq_str(e[1]), to_coq(e[2]))
    if t == "handler":
        return "WithHandler (%s) %s" % (to_coq(e[1]), cq_body(e[2]))
    raise ValueError(t)


def history_to_coq(units):
    return cq_list([cq_body(u) for u in units])


COQ_HEADER = ("From SV Require Import lib.Lang.\nFrom Coq Require Import ZArith List String Ascii.\n"
              "Import ListNotations.\nOpen Scope string_scope.\n")


def model_expr(units, fuel=400000):
    return "render_history %d %s" % (fuel, history_to_coq(units))

# ----------------------------------------------------------------------------- helpers for building ASTs


def I(n):
    return ("int", n)


def V(x):
    return ("var", x)


def A(f, *args):
    return ("app", V(f) if isinstance(f, str) else f, list(args))


def size(e):
    if isinstance(e, tuple):
        return 1 + sum(size(x) for x in e[1:])
    if isinstance(e, list):
        return sum(size(x) for x in e)
    return 0

# ----------------------------------------------------------------------------- generator


class Gen:
    """Type-directed generator of mostly well-formed, terminating MiniSteel programs.

    Types: 'int', 'bool', 'str', 'ilist' (list of ints), 'sym'.  Termination: loops are named lets /
    recursive defines over a counter that decreases to 0 from a small literal bound; every other
    construct is structurally finite.  A fraction of the programs deliberately contains an error
    (type / arity / index / user error) in live code, in dead code, or under a handler."""

    def __init__(self, rng, features=None):
        self.rng = rng
        self.n = 0
        self.feat = features or {}
        self.globals = {}      # name -> type
        self.funcs = {}        # name -> (arg types, ret type, variadic?)
        self.stats = {}

    def stat(self, k):
        self.stats[k] = self.stats.get(k, 0) + 1

    def fresh(self, base):
        self.n += 1
        return "%s%d" % (base, self.n)

    # ---- expressions
    def lit(self, ty):
        r = self.rng
        if ty == "int":
            return I(r.choice([0, 1, 2, 3, 5, 7, 10, -1, -3, 42, 100, r.randint(-50, 50)]))
        if ty == "bool":
            return ("bool", r.random() < 0.5)
        if ty == "str":
            return ("str", r.choice(["", "a", "hello", "x y", "q\"uote", "tab\there", "nl\nend", "back\\slash"]))
        if ty == "sym":
            return ("sym", r.choice(["a", "b", "foo", "bar-baz"]))
        if ty == "ilist":
            k = r.randint(0, 4)
            if r.random() < 0.5:
                return ("quote", ("dlist", [I(r.randint(-9, 9)) for _ in range(k)]))
            return A("list", *[I(r.randint(-9, 9)) for _ in range(k)])
        if ty == "hash":
            k = r.randint(0, 3)
            args = []
            for _ in range(k):
                args += [I(r.randint(0, 5)), I(r.randint(-9, 9))]
            return A("hash", *args)
        if ty == "ivec":
            return A("vector", *[I(r.randint(-9, 9)) for _ in range(r.randint(1, 4))])
        raise ValueError(ty)

    def vars_of(self, env, ty):
        return [x for x, t in env.items() if t == ty]

    def expr(self, ty, d, env):
        r = self.rng
        if d <= 0 or r.random() < 0.15:
            vs = self.vars_of(env, ty)
            if vs and r.random() < 0.7:
                return V(r.choice(vs))
            return self.lit(ty)
        k = r.random()
        # generic forms available at every type
        if k < 0.10:
            self.stat("if")
            return ("if", self.expr("bool", d - 1, env), self.expr(ty, d - 1, env), self.expr(ty, d - 1, env))
        if k < 0.18:
            self.stat("let")
            return self.let_form(ty, d, env)
        if k < 0.22:
            self.stat("begin")
            return ("begin", [self.effect(d - 1, env), self.expr(ty, d - 1, env)])
        if k < 0.27:
            self.stat("call-lambda")
            aty = r.choice(["int", "bool", "ilist", "str"])
            x = self.fresh("p")
            env2 = dict(env)
            env2[x] = aty
            if ty == "int" and r.random() < 0.2:
                # the "eta" shapes: ((lambda (x) (f x)) v) / ((lambda args (f args)) v) with a variable operand
                vs = self.vars_of(env, "ilist")
                if vs:
                    self.stat("eta-applied-lambda")
                    a = self.fresh("args")
                    if r.random() < 0.5:
                        return ("app", ("lam", [], a, [A("length", V(a))]), [V(r.choice(vs))])
                    return ("app", ("lam", [a], None, [A("length", V(a))]), [V(r.choice(vs))])
            if r.random() < 0.3:
                # immediately applied lambda with a rest parameter: 0..2 surplus operands
                rest = self.fresh("rest")
                env2[rest] = "ilist"
                extra = [self.expr("int", d - 2, env) for _ in range(r.choice([0, 0, 1, 2]))]
                self.stat("call-rest-lambda")
                return ("app", ("lam", [x], rest, [self.expr(ty, d - 1, env2)]), [self.expr(aty, d - 1, env)] + extra)
            return ("app", ("lam", [x], None, [self.expr(ty, d - 1, env2)]), [self.expr(aty, d - 1, env)])
        if k < 0.33:
            fs = [f for f, (ats, rt, var) in self.funcs.items() if rt == ty]
            if fs:
                self.stat("call-global")
                f = r.choice(fs)
                ats, rt, var = self.funcs[f]
                args = [self.expr(a, d - 1, env) for a in ats]
                if var:
                    args += [self.expr("int", d - 2, env) for _ in range(r.randint(0, 3))]
                return A(f, *args)
        if k < 0.37:
            self.stat("cond")
            n = r.randint(1, 3)
            return ("cond", [(self.expr("bool", d - 1, env), [self.expr(ty, d - 1, env)]) for _ in range(n)],
                    [self.expr(ty, d - 1, env)])
        if k < 0.40:
            self.stat("handler")
            return ("handler", ("lam", [self.fresh("e")], None, [self.expr(ty, d - 2, env)]),
                    [self.maybe_error(ty, d - 1, env)])
        if k < 0.43 and ty in ("int", "bool"):
            self.stat("andor")
            op = r.choice(["and", "or"])
            # (and ...) / (or ...) return the deciding operand: keep every operand of the wanted type
            return (op, [self.expr(ty, d - 1, env) for _ in range(r.randint(0, 3))]) if ty == "bool" else \
                   ("if", (op, [self.expr("bool", d - 1, env) for _ in range(r.randint(1, 3))]),
                    self.expr(ty, d - 1, env), self.expr(ty, d - 1, env))
        return getattr(self, "expr_" + ty)(d, env)

    def let_form(self, ty, d, env):
        r = self.rng
        kind = r.choice(["let", "let", "let*", "letrec-fn", "shadow", "alias-assign"])
        n = r.randint(1, 3)
        ints = self.vars_of(env, "int")
        if kind == "alias-assign" and ints:
            # a variable initialised from another variable and then assigned: two distinct locations
            src = r.choice(ints)
            x = self.fresh("al")
            env2 = dict(env)
            env2[x] = "int"
            self.stat("alias-assign")
            assign = ("set", x, self.safe_expr("int", 1, env2))
            tail = self.expr(ty, d - 1, env2)
            if r.random() < 0.5:
                # the assignment happens inside a closure that is called
                k = self.fresh("k")
                return ("let", [(x, V(src))], [("let", [(k, ("lam", [], None, [assign]))], [A(k), A("display", A("list", V(x), V(src))), tail])])
            return ("let", [(x, V(src))], [assign, A("display", A("list", V(x), V(src))), tail])
        if kind == "alias-assign":
            kind = "let"
        if kind == "shadow" and env:
            # rebind an existing name (possibly at another type)
            x = r.choice(list(env))
            t2 = r.choice(["int", "bool", "ilist", "str"])
            env2 = dict(env)
            env2[x] = t2
            self.stat("shadowing")
            return ("let", [(x, self.expr(t2, d - 1, env))], [self.expr(ty, d - 1, env2)])
        if kind == "letrec-fn":
            f = self.fresh("lf")
            n_ = self.fresh("n")
            acc = self.fresh("acc")
            env_f = dict(env)
            env_f[n_] = "int"
            env_f[acc] = ty
            body = ("if", A("<=", V(n_), I(0)), V(acc),
                    A(f, A("-", V(n_), I(1)), self.expr(ty, d - 2, env_f)))
            self.stat("letrec")
            return ("letrec", [(f, ("lam", [n_, acc], None, [body]))],
                    [A(f, I(r.randint(0, 6)), self.expr(ty, d - 2, env))])
        binds = []
        env2 = dict(env)
        envb = dict(env)
        for _ in range(n):
            x = self.fresh("v")
            t2 = r.choice(["int", "int", "bool", "ilist", "str", "ivec", "hash"])
            binds.append((x, self.expr(t2, d - 1, envb if kind == "let*" else env)))
            env2[x] = t2
            if kind == "let*":
                envb = dict(envb)
                envb[x] = t2
        body = [self.expr(ty, d - 1, env2)]
        if r.random() < 0.3:
            # internal define at the head of the body
            y = self.fresh("d")
            t3 = r.choice(["int", "ilist"])
            env3 = dict(env2)
            env3[y] = t3
            body = [("define", y, self.expr(t3, d - 2, env2)), self.expr(ty, d - 1, env3)]
            self.stat("internal-define")
        return (kind if kind in ("let", "let*") else "let", binds, body)

    def maybe_error(self, ty, d, env):
        r = self.rng
        if r.random() < 0.6:
            self.stat("error-in-handler-body")
            return self.error_expr(d, env)
        return self.expr(ty, d, env)

    def error_expr(self, d, env):
        r = self.rng
        k = r.choice(["user", "car", "vecref", "type", "arity", "listref", "quot0"])
        self.stat("err-" + k)
        if k == "user":
            return A("error", ("str", "boom"), self.expr("int", d - 1, env))
        if k == "car":
            return A("car", ("quote", ("dlist", [])))
        if k == "vecref":
            return A("vector-ref", A("vector", I(1), I(2)), I(r.choice([2, 5, 100])))
        if k == "type":
            return A("+", I(1), ("str", "a"))
        if k == "arity":
            # through a variable, so that the arity is not checked statically (a directly applied lambda
            # literal with the wrong number of operands is rejected at compile time: documented deviation)
            return ("let", [("af", ("lam", ["x"], None, [V("x")]))], [A("af")])
        if k == "listref":
            return A("list-ref", A("list", I(1)), I(3))
        return A("quotient", self.expr("int", d - 1, env), I(0))

    def effect(self, d, env):
        r = self.rng
        k = r.random()
        if k < 0.5:
            ty = r.choice(["int", "bool", "str", "ilist", "sym"])
            self.stat("display")
            return A(r.choice(["display", "display", "write"]), self.expr(ty, d, env))
        if k < 0.6:
            return A("newline")
        vecs = self.vars_of(env, "ivec")
        if vecs and k < 0.75:
            self.stat("vector-set!")
            v = V(r.choice(vecs))
            return ("when", A("<", I(0), A("vector-length", v)), [A("vector-set!", v, I(0), self.expr("int", d, env))])
        mut = [x for x in self.globals if x in self.mutable and self.globals[x] in ("int", "ilist")]
        mutl = [x for x in env if x in self.local_mut and env[x] == "int"]
        if (mut or mutl) and k < 0.9:
            self.stat("set!")
            x = r.choice(mut + mutl)
            ty = env.get(x, self.globals.get(x))
            return ("set", x, self.expr(ty, d, env))
        return A("display", self.expr("int", d, env))

    mutable = set()
    local_mut = set()

    def expr_int(self, d, env):
        r = self.rng
        k = r.random()
        if k < 0.35:
            op = r.choice(["+", "-", "*", "+", "-", "min", "max"])
            n = r.choice([2, 2, 2, 3, 1])
            self.stat("arith")
            return A(op, *[self.expr("int", d - 1, env) for _ in range(n)])
        if k < 0.45:
            op = r.choice(["quotient", "remainder", "modulo"])
            # divisor: a non-zero literal most of the time
            dv = I(r.choice([1, 2, 3, -2, 7])) if r.random() < 0.9 else self.expr("int", d - 1, env)
            return A(op, self.expr("int", d - 1, env), dv)
        if k < 0.55:
            if r.random() < 0.4:
                # an operand pending below an `if` whose branches differ in shape (bare variable / constant
                # on one side, a call on the other): the native tier has to keep the pending operand
                self.stat("pending-operand-if")
                vs = self.vars_of(env, "int")
                bare = V(r.choice(vs)) if vs else self.lit("int")
                call = A(r.choice(["+", "*", "-"]), bare, self.lit("int"))
                branches = [bare, call]
                r.shuffle(branches)
                test = self.expr("bool", d - 1, env) if r.random() < 0.5 else A("<", bare, self.lit("int"))
                pend = [self.lit("int") for _ in range(r.randint(1, 3))]
                return A(r.choice(["+", "max", "min"]), *(pend + [("if", test, branches[0], branches[1])]))
            if r.random() < 0.3:
                # a local that is read inside an immediately applied thunk / (let () ..) BEFORE it is assigned
                self.stat("thunk-read-then-assign")
                x = self.fresh("tr")
                env2 = dict(env)
                env2[x] = "int"
                read = ("app", ("lam", [], None, [A("+", V(x), self.lit("int"))]), []) if r.random() < 0.5 else \
                    ("let", [], [A("+", V(x), self.lit("int"))])
                return ("let", [(x, self.safe_expr("int", 1, env))],
                        [A("+", read, ("begin", [("set", x, self.safe_expr("int", 1, env2)), V(x)]), V(x))])
            return A(r.choice(["length"]), self.expr("ilist", d - 1, env))
        if k < 0.62:
            self.stat("foldl")
            a, b = self.fresh("x"), self.fresh("acc")
            env2 = dict(env)
            env2[a] = "int"
            env2[b] = "int"
            return A("foldl", ("lam", [a, b], None, [self.expr("int", d - 2, env2)]), self.expr("int", d - 1, env),
                     self.expr("ilist", d - 1, env))
        if k < 0.70:
            self.stat("named-let-loop")
            return self.loop_int(d, env)
        if k < 0.75:
            return A("string-length", self.expr("str", d - 1, env))
        if k < 0.80:
            return A("abs", self.expr("int", d - 1, env))
        if k < 0.86:
            self.stat("apply")
            return A("apply", V(r.choice(["+", "*", "max"])), self.expr("int", d - 1, env), self.expr("ilist", d - 1, env)) \
                if r.random() < 0.5 else A("apply", V("+"), self.expr("ilist", d - 1, env))
        if k < 0.90:
            self.stat("closure-counter")
            return self.counter(d, env)
        if k < 0.93:
            self.stat("overflow-loop")
            return self.overflow_loop(d, env)
        if k < 0.95:
            return A("vector-ref", A("vector", *[self.expr("int", d - 2, env) for _ in range(3)]), I(r.randint(0, 2)))
        k2 = r.random()
        if k2 < 0.3:
            self.stat("hash-read")
            h = self.fresh("h")
            key = I(r.randint(0, 5))
            env2 = dict(env)
            return ("let", [(h, self.expr("hash", d - 1, env))],
                    [("if", A("hash-contains?", V(h), key), A("hash-ref", V(h), key), A("hash-length", V(h)))])
        if k2 < 0.5:
            vs = self.vars_of(env, "ivec")
            if vs:
                self.stat("vector-read")
                v = V(r.choice(vs))
                return ("if", A("<", I(0), A("vector-length", v)), A("vector-ref", v, I(0)), I(0))
        if k2 < 0.8:
            # a call with many arguments (the native tier spills beyond 8)
            self.stat("many-args")
            n = r.choice([7, 8, 9, 10, 12])
            ps = [self.fresh("m") for _ in range(n)]
            env2 = dict(env)
            env2.update({p_: "int" for p_ in ps})
            body = A("+", *[V(p_) for p_ in r.sample(ps, 3)], self.expr("int", d - 2, env2))
            f = self.fresh("mf")
            return ("let", [(f, ("lam", ps, None, [body]))], [A(f, *[self.expr("int", d - 2, env) for _ in ps])])
        self.stat("closure-factory")
        mk, c = self.fresh("mk"), self.fresh("c")
        a, b = self.fresh("k"), self.fresh("k")
        return ("let", [(mk, ("lam", [c], None, [("lam", [], None, [("set", c, A("+", V(c), I(1))), V(c)])]))],
                [("let", [(a, A(mk, self.expr("int", d - 2, env))), (b, A(mk, I(100)))],
                  [A("+", A(a), A(a), A(b), A(a))])])

    def overflow_loop(self, d, env):
        """A counted loop whose accumulator crosses the fixnum / bignum boundary (native-code deopt paths)."""
        r = self.rng
        lp, i, acc = self.fresh("loop"), self.fresh("i"), self.fresh("acc")
        start = r.choice([1, 3, 2**31 - 1, 2**62, 2**63 - 2, -2**63 + 1, 10**18])
        op = r.choice(["+", "*", "-"])
        k = r.choice([2, 3, 2**31, 2**62, 10**9, -7])
        n = r.choice([2, 3, 5, 8])
        cmp_ = r.choice([None, None, "<", ">", "="])
        body = A(lp, A("-", V(i), I(1)), A(op, V(acc), I(k)))
        if cmp_:
            body = ("if", A(cmp_, V(acc), I(r.choice([2**63 - 1, 2**63, 0, -2**63]))), body,
                    A(lp, A("-", V(i), I(1)), A("+", V(acc), I(1))))
        return ("nlet", lp, [(i, I(n)), (acc, I(start))], [("if", A("<=", V(i), I(0)), V(acc), body)])

    def counter(self, d, env):
        """A closure capturing and mutating a local variable, called several times."""
        r = self.rng
        c = self.fresh("c")
        mk = self.fresh("inc")
        step = self.expr("int", 0, env)
        body_calls = [A(mk) for _ in range(r.randint(1, 3))]
        return ("let", [(c, self.expr("int", d - 2, env))],
                [("let", [(mk, ("lam", [], None, [("set", c, A("+", V(c), step)), V(c)]))],
                  [A("+", *body_calls, V(c))])])

    def loop_int(self, d, env):
        r = self.rng
        lp, i, acc = self.fresh("loop"), self.fresh("i"), self.fresh("acc")
        env2 = dict(env)
        env2[i] = "int"
        env2[acc] = "int"
        bound = r.choice([0, 1, 3, 5, 10])
        upd = self.expr("int", d - 2, env2)
        return ("nlet", lp, [(i, I(bound)), (acc, self.expr("int", d - 2, env))],
                [("if", A("<=", V(i), I(0)), V(acc), A(lp, A("-", V(i), I(1)), upd))])

    def expr_bool(self, d, env):
        r = self.rng
        k = r.random()
        if k < 0.45:
            op = r.choice(["<", ">", "<=", ">=", "="])
            return A(op, self.expr("int", d - 1, env), self.expr("int", d - 1, env))
        if k < 0.55:
            return A("not", self.expr("bool", d - 1, env))
        if k < 0.65:
            return A(r.choice(["null?", "pair?", "list?"]), self.expr("ilist", d - 1, env))
        if k < 0.75:
            return A(r.choice(["even?", "odd?", "zero?"]), self.expr("int", d - 1, env))
        if k < 0.85:
            ty = r.choice(["int", "ilist", "str", "sym"])
            return A("equal?", self.expr(ty, d - 1, env), self.expr(ty, d - 1, env))
        if k < 0.92:
            ty = r.choice(["int", "ilist", "str", "sym", "bool"])
            return A(r.choice(["number?", "string?", "symbol?", "boolean?", "procedure?"]), self.expr(ty, d - 1, env))
        return A("string=?", self.expr("str", d - 1, env), self.expr("str", d - 1, env))

    def expr_hash(self, d, env):
        r = self.rng
        k = r.random()
        self.stat("hash-op")
        if k < 0.5:
            return A("hash-insert", self.expr("hash", d - 1, env), I(r.randint(0, 5)), self.expr("int", d - 1, env))
        if k < 0.7:
            return A("hash-remove", self.expr("hash", d - 1, env), I(r.randint(0, 5)))
        return self.lit("hash")

    def expr_ivec(self, d, env):
        r = self.rng
        self.stat("vector-op")
        if r.random() < 0.4:
            return A("make-vector", I(r.randint(0, 3)), self.expr("int", d - 1, env))
        return A("vector", *[self.expr("int", d - 1, env) for _ in range(r.randint(0, 4))])

    def expr_str(self, d, env):
        r = self.rng
        k = r.random()
        if k < 0.5:
            return A("string-append", *[self.expr("str", d - 1, env) for _ in range(r.randint(0, 3))])
        if k < 0.8:
            return A("number->string", self.expr("int", d - 1, env))
        return A("symbol->string", self.expr("sym", d - 1, env))

    def expr_sym(self, d, env):
        if self.rng.random() < 0.3:
            return A("string->symbol", ("str", self.rng.choice(["a", "foo", "zed"])))
        return self.lit("sym")

    def expr_ilist(self, d, env):
        r = self.rng
        k = r.random()
        if k < 0.2:
            return A("cons", self.expr("int", d - 1, env), self.expr("ilist", d - 1, env))
        if k < 0.3:
            return A("list", *[self.expr("int", d - 1, env) for _ in range(r.randint(0, 4))])
        if k < 0.4:
            return A("append", *[self.expr("ilist", d - 1, env) for _ in range(r.randint(0, 3))])
        if k < 0.5:
            return A("reverse", self.expr("ilist", d - 1, env))
        if k < 0.65:
            self.stat("map")
            x = self.fresh("x")
            env2 = dict(env)
            env2[x] = "int"
            if r.random() < 0.3:
                y = self.fresh("y")
                env2[y] = "int"
                return A("map", ("lam", [x, y], None, [self.expr("int", d - 2, env2)]),
                         self.expr("ilist", d - 1, env), self.expr("ilist", d - 1, env))
            return A("map", ("lam", [x], None, [self.expr("int", d - 2, env2)]), self.expr("ilist", d - 1, env))
        if k < 0.75:
            self.stat("filter")
            x = self.fresh("x")
            env2 = dict(env)
            env2[x] = "int"
            return A("filter", ("lam", [x], None, [self.expr("bool", d - 2, env2)]), self.expr("ilist", d - 1, env))
        if k < 0.83:
            # cdr guarded by null? so that it is mostly valid
            l = self.fresh("l")
            env2 = dict(env)
            env2[l] = "ilist"
            return ("let", [(l, self.expr("ilist", d - 1, env))], [("if", A("null?", V(l)), V(l), A("cdr", V(l)))])
        if k < 0.90:
            self.stat("build-loop")
            lp, i, acc = self.fresh("loop"), self.fresh("i"), self.fresh("acc")
            env2 = dict(env)
            env2[i] = "int"
            env2[acc] = "ilist"
            return ("nlet", lp, [(i, I(r.choice([0, 2, 4]))), (acc, self.expr("ilist", d - 2, env))],
                    [("if", A("<=", V(i), I(0)), V(acc),
                      A(lp, A("-", V(i), I(1)), A("cons", self.expr("int", d - 2, env2), V(acc))))])
        return A("vector->list", A("vector", *[self.expr("int", d - 2, env) for _ in range(r.randint(0, 3))]))

    # ---- top level
    def toplevel_define_var(self, d):
        r = self.rng
        ty = r.choice(["int", "int", "ilist", "str", "bool", "hash", "ivec"])
        x = self.fresh("g")
        e = self.expr(ty, d, dict(self.globals))
        self.globals[x] = ty
        if r.random() < 0.6:
            self.mutable.add(x)
        self.stat("define-var")
        return ("define", x, e)

    def toplevel_define_fn(self, d):
        r = self.rng
        f = self.fresh("f")
        n = r.randint(0, 3)
        ats = [r.choice(["int", "int", "ilist", "bool", "str"]) for _ in range(n)]
        rt = r.choice(["int", "int", "ilist", "bool", "str"])
        ps = [self.fresh("a") for _ in ats]
        env = dict(self.globals)
        env.update(dict(zip(ps, ats)))
        kind = r.random()
        variadic = False
        rest = None
        if kind < 0.2:
            # variadic: rest arguments are ints
            rest = self.fresh("rest")
            env[rest] = "ilist"
            variadic = True
            self.stat("variadic-fn")
        if kind > 0.75 and rt == "int":
            # recursive function over a counter (non tail)
            self.stat("recursive-fn")
            n_ = self.fresh("n")
            env[n_] = "int"
            # recursive call only with a strictly smaller counter; the function is registered for
            # callers only after its body has been generated (no other self calls)
            rec = A(f, A("-", V(n_), I(1)), *[V(p) for p in ps])
            body = ("if", A("<=", V(n_), I(0)), self.expr("int", d - 1, env),
                    A(r.choice(["+", "*", "max"]), self.expr("int", d - 2, env), rec))
            # callers may pass any counter: large ones are cut off
            lam = ("lam", [n_] + ps, None, [("if", A(">", V(n_), I(12)), I(0), body)])
            self.funcs[f] = (["int"] + ats, rt, False)
            return ("define", f, lam)
        if 0.55 < kind <= 0.75 and rt == "int" and r.random() < 0.6:
            # self tail call of a function with a rest parameter, with an operand count that differs from
            # the number of formals (fewer: the rest list becomes empty; more: surplus operands are collected)
            self.stat("variadic-self-tail-call")
            n_ = self.fresh("n")
            rs = self.fresh("rest")
            fixed = [n_] + ps[:r.randint(0, min(2, len(ps)))]
            ftys = ["int"] + ats[:len(fixed) - 1]
            envb = dict(self.globals)
            envb.update(dict(zip(fixed, ftys)))
            envb[rs] = "ilist"
            k = r.choice([0, 0, 1, 2, 3])          # surplus operands of the self call
            ops = [A("-", V(n_), I(1))] + [self.safe_expr(t, 1, envb) for t in ftys[1:]] + \
                  [self.safe_expr("int", 1, envb) for _ in range(k)]
            done = A("+", A("apply", V("+"), V(rs)), A("*", I(100), A("length", V(rs))), self.safe_expr("int", 1, envb))
            body = ("if", A("<=", V(n_), I(0)), done, A(f, *ops))
            lam = ("lam", fixed, rs, [("if", A(">", V(n_), I(12)), I(0), body)])
            self.funcs[f] = (ftys, "int", True)
            return ("define", f, lam)
        if r.random() < 0.3:
            # a parameter that is captured and mutated by an inner closure
            self.stat("mutated-capture")
        body = [self.expr(rt, d, env)]
        if r.random() < 0.25:
            body = [self.effect(d - 1, env)] + body
        self.funcs[f] = (ats, rt, variadic)
        return ("define", f, ("lam", ps, rest, body))

    def toplevel_expr(self, d):
        r = self.rng
        env = dict(self.globals)
        k = r.random()
        if k < 0.35:
            return self.effect(d, env)
        if k < 0.45:
            self.stat("toplevel-error-live")
            return ("if", self.expr("bool", d - 1, env), self.error_expr(d, env), self.expr("int", d - 1, env))
        if k < 0.52:
            self.stat("toplevel-error-dead")
            return ("if", ("bool", False), self.error_expr(d, env), self.expr("int", d - 1, env))
        return self.expr(r.choice(["int", "int", "ilist", "bool", "str", "sym", "hash", "ivec"]), d, env)

    def program(self, nforms=None, depth=None):
        r = self.rng
        self.globals = {}
        self.funcs = {}
        self.mutable = set()
        self.local_mut = set()
        n = nforms or r.choice([3, 5, 8, 12, 20])
        d = depth or r.choice([2, 3, 3, 4])
        forms = []
        for _ in range(n):
            k = r.random()
            if k < 0.25:
                forms.append(self.toplevel_define_var(d))
            elif k < 0.5:
                forms.append(self.toplevel_define_fn(d))
            else:
                forms.append(self.toplevel_expr(d))
        return forms

    # ---- histories: several evaluation units on one engine
    def history(self, nunits=None, depth=None):
        """Units are evaluated one after the other on one engine.  Later units redefine globals and
        functions that earlier compiled functions call, assign globals with set!, and call earlier
        functions.  Within a unit the definitions come first (a run-time error aborts the rest of the
        unit, so every name a unit defines is initialised unless the defining expression itself fails)."""
        r = self.rng
        self.globals = {}
        self.funcs = {}
        self.mutable = set()
        self.local_mut = set()
        n = nunits or r.choice([3, 4, 6, 8])
        d = depth or r.choice([2, 3])
        self.prim_alias = set()
        units = []
        for ui in range(n):
            defs, exprs = [], []
            defined_here = set()
            # redefinitions first: the defining expression of a top-level define may only mention globals
            # whose (re)definition in this unit has already been evaluated ("cannot reference an identifier
            # before its definition" is a compile-time error of the whole unit)
            nre = r.choice([0, 0, 1, 2]) if ui >= 1 else 0
            for _ in range(nre):
                k = r.random()
                if k < 0.5 and self.globals:
                    cands = [x for x in self.globals if x not in defined_here]
                    if cands:
                        x = r.choice(cands)
                        env = {y: t for y, t in self.globals.items() if y != x}
                        defs.append(("define", x, self.safe_expr(self.globals[x], d, env)))
                        defined_here.add(x)
                        self.stat("redefine-var")
                elif self.funcs:
                    cands = [f for f in self.funcs if f not in defined_here]
                    if cands:
                        f = r.choice(cands)
                        ats, rt, var = self.funcs[f]
                        if not var:
                            ps = [self.fresh("a") for _ in ats]
                            env = dict(self.globals)
                            env.update(dict(zip(ps, ats)))
                            saved = self.funcs.pop(f)            # the new body must not call the name being redefined
                            body = self.expr(rt, d, env)         # (unbounded self recursion)
                            self.funcs[f] = saved
                            defs.append(("define", f, ("lam", ps, None, [body])))
                            defined_here.add(f)
                            self.stat("redefine-fn")
            for _ in range(r.randint(1, 3)):
                if r.random() < 0.55:
                    before = dict(self.globals)
                    form = self.toplevel_define_var(d)
                    form = ("define", form[1], self.safe_expr(self.globals[form[1]], d, before))
                    defs.append(form)
                    defined_here.add(form[1])
                else:
                    form = self.toplevel_define_fn(d)
                    defs.append(form)
                    defined_here.add(form[1])
            if r.random() < 0.3:
                # a global bound to a BUILT-IN procedure: later functions call it like any other function,
                # a later unit assigns it (the callers compiled earlier must see the new procedure)
                gp = self.fresh("gp")
                defs.append(("define", gp, V(r.choice(["+", "*", "max", "min", "-"]))))
                defined_here.add(gp)
                self.funcs[gp] = (["int", "int"], "int", False)
                self.prim_alias.add(gp)
                self.stat("builtin-valued-global")
            for _ in range(r.randint(1, 4)):
                exprs.append(self.toplevel_expr(d))
            aliases = [g_ for g_ in self.prim_alias if g_ in self.funcs and g_ not in defined_here]
            if ui >= 1 and aliases and r.random() < 0.5:
                gp = r.choice(aliases)
                if r.random() < 0.6:
                    new = V(r.choice(["+", "*", "max", "min", "-"]))
                else:
                    a, b = self.fresh("a"), self.fresh("a")
                    new = ("lam", [a, b], None, [A(r.choice(["+", "-"]), A("*", V(a), I(2)), V(b))])
                exprs.insert(r.randint(0, len(exprs)), ("begin", [("set", gp, new), I(0)]))
                self.stat("assign-builtin-valued-global")
            if ui >= 1 and r.random() < 0.12:
                # assign (set!) a global FUNCTION defined by an earlier unit, then keep calling its callers
                cands = [f for f, (ats, rt, var) in self.funcs.items() if not var and f not in defined_here]
                if cands:
                    f = r.choice(cands)
                    ats, rt, var = self.funcs[f]
                    ps = [self.fresh("a") for _ in ats]
                    env = dict(self.globals)
                    env.update(dict(zip(ps, ats)))
                    saved = self.funcs
                    self.funcs = {}          # the new body calls no global function (no accidental recursion)
                    body = self.expr(rt, d, env)
                    self.funcs = saved
                    exprs.insert(0, ("begin", [("set", f, ("lam", ps, None, [body])), I(0)]))
                    self.stat("assign-function-later")
            units.append(defs + exprs)
        return units

    def safe_expr(self, ty, d, env):
        """An expression whose evaluation cannot fail (used for defining expressions in histories)."""
        r = self.rng
        if ty == "int":
            vs = self.vars_of(env, "int")
            a = V(r.choice(vs)) if vs and r.random() < 0.5 else self.lit("int")
            return A(r.choice(["+", "-", "*", "max"]), a, self.lit("int"))
        if ty == "ilist":
            vs = self.vars_of(env, "ilist")
            return A("cons", self.lit("int"), V(r.choice(vs))) if vs and r.random() < 0.5 else self.lit("ilist")
        if ty == "hash":
            vs = self.vars_of(env, "hash")
            return A("hash-insert", V(r.choice(vs)), self.lit("int"), self.lit("int")) if vs and r.random() < 0.5 else self.lit("hash")
        return self.lit(ty)


# ----------------------------------------------------------------------------- shrinking (delta debugging)

EXPR_TAGS = {"int", "bool", "str", "sym", "void", "char", "quote", "var", "lam", "app", "if", "set", "begin", "let",
             "let*", "letrec", "nlet", "and", "or", "when", "unless", "cond", "define", "handler"}


def is_expr(x):
    return isinstance(x, tuple) and len(x) > 0 and isinstance(x[0], str) and x[0] in EXPR_TAGS


def sub_exprs(e):
    """Direct sub-expressions of e with a function rebuilding e from a replacement: [(child, rebuild)]."""
    out = []

    def walk(obj, rebuild):
        # obj is a component (tuple/list/atom) of the node
        if is_expr(obj):
            out.append((obj, rebuild))
            return
        if isinstance(obj, (list, tuple)):
            for i, x in enumerate(obj):
                def rb(new, i=i, obj=obj, rebuild=rebuild):
                    lst = list(obj)
                    lst[i] = new
                    return rebuild(type(obj)(lst) if isinstance(obj, tuple) else lst)
                walk(x, rb)
    for i in range(1, len(e)):
        def rb0(new, i=i):
            lst = list(e)
            lst[i] = new
            return tuple(lst)
        walk(e[i], rb0)
    return out


def candidates(e):
    """Simpler variants of expression e (one step)."""
    res = []
    if e[0] in ("int", "bool", "str", "sym", "void", "var"):
        return res
    for c in (("int", 0), ("bool", False), ("quote", ("dlist", [])), ("str", "")):
        res.append(c)
    for child, rebuild in sub_exprs(e):
        if child[0] != "define":
            res.append(child)                       # replace e by one of its children
    for child, rebuild in sub_exprs(e):
        for c2 in candidates(child):
            res.append(rebuild(c2))                 # simplify inside
    return res


def shrink(forms, fails_batch, max_rounds=80, batch=48):
    """Greedy delta debugging. fails_batch(list of programs) -> list of bool (True = still failing)."""
    forms = list(forms)
    rounds = 0
    # 1. drop top-level forms
    changed = True
    while changed and rounds < max_rounds and len(forms) > 1:
        changed = False
        rounds += 1
        cands = [forms[:i] + forms[i + 1:] for i in range(len(forms))]
        res = fails_batch(cands)
        # take as many compatible deletions as possible: try deleting all that individually succeed
        ok = [i for i, r in enumerate(res) if r]
        if ok:
            trial = [f for i, f in enumerate(forms) if i not in ok]
            if trial and fails_batch([trial])[0]:
                forms = trial
            else:
                forms = cands[ok[0]]
            changed = True
    # 2. simplify inside forms
    while rounds < max_rounds:
        rounds += 1
        cands = []
        for i, f in enumerate(forms):
            for c in candidates(f):
                if c[0] == "define" or f[0] != "define":
                    cands.append(forms[:i] + [c] + forms[i + 1:])
                if len(cands) >= batch * 4:
                    break
        cands.sort(key=size)
        cands = cands[:batch]
        if not cands:
            break
        res = fails_batch(cands)
        ok = [c for c, r in zip(cands, res) if r]
        if not ok:
            break
        forms = ok[0]
    return forms


# ----------------------------------------------------------------------------- regression corpus
# Minimised programs on which the engine once differed from the reference (DESIGN 8.3); run first.

def _i(n): return ("int", n)
def _v(x): return ("var", x)
def _app(f, *a): return ("app", f, list(a))


CORPUS = [
    # F40: nested applied lambdas flattened across a rest parameter
    [("app", ("lam", ["p"], "rest", [("let", [("c", _i(5))],
        [("let", [("inc", ("lam", [], None, [("set", "c", _i(0)), _v("c")]))], [_v("c")])])]), [_v("cons")])],
    [("app", ("lam", ["p"], None, [("app", ("lam", ["c"], "r", [_app(_v("list"), _v("c"), _v("r"))]), [_i(5), _i(6)])]), [_v("car")])],
    [("app", ("lam", ["p"], "rest", [("app", ("lam", ["c"], None, [_app(_v("list"), _v("p"), _v("rest"), _v("c"))]), [_i(5)])]),
      [_i(1), _i(2), _i(3)])],
    # F37: rest parameter with no surplus operand
    [("app", ("lam", ["a"], "r", [_app(_v("cons"), _v("a"), _v("r"))]), [_i(1)])],
    # F25: (quote #f) is false
    [("if", ("let", [("p", ("bool", False))], [_v("p")]), _i(1), _i(2))],
    # F26: apply after cdr
    [_app(_v("apply"), _v("list"), _i(0), _app(_v("cdr"), _app(_v("list"), _i(9), _i(-6), _i(4))))],
    # F27: constant body of an applied lambda
    [("define", "f", ("lam", ["x"], None, [("let", [("b", _v("x")), ("c", ("quote", ("dlist", [])))], [_v("c")])])), _app(_v("f"), _i(1))],
    # F39: errors below natively compiled frames
    [("define", "g", ("lam", ["a"], None, [("if", _app(_v("<="), _v("a"), _i(0)), _app(_v("car"), _v("a")),
                                           _app(_v("g"), _app(_v("-"), _v("a"), _i(1))))])), _app(_v("g"), _i(2))],
    [("define", "h", ("lam", ["a"], None, [("handler", ("lam", ["e"], None, [_v("a")]), [_app(_v("car"), ("quote", ("dlist", [])))])])),
     _app(_v("h"), _i(10)), _app(_v("h"), _i(11))],
    # F41: a let variable initialised from a parameter and then assigned was replaced by the parameter
    [("define", "g", ("lam", ["a"], None, [("let", [("s", _v("a"))], [("set", "s", _i(5)), _app(_v("list"), _v("s"), _v("a"))])])),
     _app(_v("g"), _i(2))],
    [("define", "g3", ("lam", ["a"], None, [("let*", [("s", _v("a")), ("t", _v("s"))],
                                            [("set", "t", _i(7)), _app(_v("list"), _v("s"), _v("t"), _v("a"))])])), _app(_v("g3"), _i(1))],
    [("define", "k", ("lam", ["a"], None, [("let", [("h", ("lam", ["p"], None, [("let", [("s", _v("a"))],
        [_app(_v("+"), ("set", "s", _v("a")), _v("s"))])]))], [_app(_v("h"), _i(1))])])), _app(_v("k"), _i(2))],
    # F42: arity error while native code enters another closure
    [("let", [("h", ("lam", ["p"], None, [("app", ("lam", ["q"], None, [_v("q")]),
        [("let", [("af", ("lam", ["x"], None, [_v("x")]))], [_app(_v("af"))])])]))], [_app(_v("+"), _app(_v("h"), _i(2)), _app(_v("h"), _i(1)))])],
    # F43: operand pending below an if, one branch a bare local, the other a call (native tier)
    [("define", "pd", ("lam", ["z"], None, [_app(_v("list"), ("bool", False), ("if", _v("z"), _v("z"), _app(_v("+"), _v("z"), _v("z"))))])),
     _app(_v("pd"), _i(3)), _app(_v("pd"), _i(4))],
    # F44: read of a boxed variable inside an applied thunk before its first assignment
    [("define", "bx", ("lam", [], None, [("let", [("s", _i(3))], [_app(_v("list"), ("app", ("lam", [], None, [_v("s")]), []),
                                                                    ("set", "s", _i(4)), _v("s"))])])), _app(_v("bx"))],
    [("define", "by", ("lam", [], None, [("let", [("s", _i(3))], [("set", "s", ("app", ("lam", [], None, [_app(_v("+"), _v("s"), _i(1))]), [])), _v("s")])])),
     _app(_v("by"))],
    # F48: ((lambda args (f args)) v) was rewritten to (f v); ((lambda (x) (x x)) v) failed to compile
    [("define", "ge", ("lam", ["y"], None, [("app", ("lam", [], "args", [_app(_v("length"), _v("args"))]), [_v("y")])])),
     _app(_v("ge"), ("quote", ("dlist", [_i(1), _i(2), _i(3)])))],
    [("define", "we", ("lam", ["y"], None, [("app", ("lam", ["x"], None, [_app(_v("x"), _v("x"))]), [_v("y")])])),
     _app(_v("we"), ("lam", ["z"], None, [_i(5)]))],
    # F29 / F38: operand counts the native tier has no helper for
    [("define", "c9", ("lam", ["f"], None, [_app(_v("f"), *[_i(k) for k in range(1, 10)])])), _app(_v("c9"), _v("+"))],
    [("define", "s5", ("lam", ["a"], None, [_app(_v("-"), _v("a"), _i(1), _i(2), _i(3), _i(4))])), _app(_v("s5"), _i(20)), _app(_v("s5"), _i(21))],
]

# definitions that go into a required module, and the expressions of the main program (C02 module family)
MODULE_CORPUS = [
    ([("define", "fa", ("lam", ["x"], None, [_app(_v("car"), _v("x"))])),
      ("define", "fb", ("lam", ["a"], None, [("handler", ("lam", ["e"], None, [_v("a")]), [_app(_v("car"), ("quote", ("dlist", [])))])])),
      ("define", "fc", ("lam", ["x"], None, [_app(_v("-"), _v("x"), _i(1))])),
      ("define", "fd", ("lam", ["x"], None, [_app(_v("vector-ref"), _app(_v("vector"), _i(1), _i(2)), _v("x"))]))],
     [_app(_v("fa"), ("quote", ("dlist", []))), _app(_v("fb"), _i(10)), _app(_v("fb"), _i(11)), _app(_v("fc"), ("str", "a")),
      _app(_v("fd"), _i(10)), _app(_v("fa"), _app(_v("list"), _i(3)))]),
]
