"""C08 — continuations, dynamic-wind and handlers restore the captured control state (DESIGN.md section 4, C08).

(G) translator: shape facts of vm.rs (what the error-unwind loops do with a frame's continuation mark, what call/cc
    attaches the mark to, what closing copies) -> coq/gen/Gen_C08.v
(P) coq/c08: the lazy-capture state machine (Open / Closed marks) with open_closed_equiv and reenter_many for every
    sequence of VM operations; wind_once / handler_unwinds over the reference machine coq/lib/Lang.v
(C) generated programs (extension of the C01 grammar with call/cc in every position, re-entry through stored
    continuations, dynamic-wind, handlers, errors, loops) run on the engine (both STEEL_JIT settings) and on the
    reference semantics; values, error class and the display trace are compared.
"""
import json
import os
import re

from checks import common, lang
from checks.common import TieBroken
from checks.c01 import compare, engine_render
from checks.lang import A, I, V

VM = "crates/steel-core/src/steel_vm/vm.rs"


# ------------------------------------------------------------------------------------------------
# translator: facts about the capture / close / reinstate code
# ------------------------------------------------------------------------------------------------
def strip_rust_comments(src):
    src = re.sub(r"/\*.*?\*/", lambda m: re.sub(r"[^\n]", " ", m.group(0)), src, flags=re.S)
    return re.sub(r"(?m)//[^\n]*", "", src)


def block_at(src, start):
    i = src.index("{", start)
    depth = 0
    for j in range(i, len(src)):
        if src[j] == "{":
            depth += 1
        elif src[j] == "}":
            depth -= 1
            if depth == 0:
                return src[i:j + 1]
    raise TieBroken("unbalanced braces")


def translate(ck=None):
    src = strip_rust_comments(common.repo_file(VM))
    f = {}
    # error unwind loops (SteelThread::execute and call_with_instructions_and_reset_state): the popped frame's mark must
    # still be attached when close_continuation_marks(&last) runs.  `.weak_continuation_mark.take()` before it detaches it.
    loops = [m.start() for m in re.finditer(r"if let Err\(e\) = result \{", src)]
    if len(loops) < 2:
        raise TieBroken("error unwind loops not found in vm.rs (expected 2, found %d)" % len(loops))
    closes = 0
    for st in loops:
        b = block_at(src, st)
        m = re.search(r"if\s+last\s*\.attachments\s*\.as_(mut|ref)\(\)\s*\.and_then\(\|x\|\s*x\.weak_continuation_mark\.(take\(\)|as_ref\(\))\)\s*\.is_some\(\)", b)
        if not m:
            raise TieBroken("error unwind loop: test of the frame's continuation mark not found")
        if not re.search(r"close_continuation_marks\(&last\)", b):
            raise TieBroken("error unwind loop: close_continuation_marks(&last) not found")
        if m.group(2).startswith("as_ref"):
            closes += 1
    f["unwind_closes_marks"] = closes == len(loops)
    f["unwind_loops"] = len(loops)
    # reinstating an OPEN mark whose object is still referenced elsewhere (strong_count > 1) must close it: its frame is
    # popped.  A further `weak_count == 1 &&` condition skips that when copies of the frame exist in other continuations.
    m = re.search(r"pub fn set_state_from_continuation\(ctx: &mut VmCore<'_>, this: Self\)", src)
    if not m:
        raise TieBroken("Continuation::set_state_from_continuation not found")
    b = block_at(src, m.start())
    mm = re.search(r"if\s+((?:weak_count == 1\s*&&\s*)?)strong_count > 1\s*&&\s*Self::close_marks\(ctx, &stack_frame\)", b)
    if not mm:
        raise TieBroken("set_state_from_continuation: `strong_count > 1 && Self::close_marks(ctx, &stack_frame)` not found")
    f["reinstate_closes_when_shared"] = mm.group(1) == ""
    # call/cc: the mark is attached to the frame pushed for the receiver, the continuation is built before the push
    m = re.search(r"pub fn call_cc\(ctx: &mut VmCore, args: &\[SteelVal\]\)", src)
    if not m:
        raise TieBroken("call_cc not found")
    b = block_at(src, m.start())
    i1 = b.find("let continuation = ctx.construct_continuation_function();")
    i2 = b.find(".with_continuation_mark(continuation.clone())")
    i3 = b.find("ctx.thread.stack_frames.push(")
    f["capture_before_push"] = 0 <= i1 < i3 < i2 and "ctx.pop_count += 1;" in b[i3:]
    # open mark: values from sp upward, ip, sp, pop_count
    m = re.search(r"fn new_open_continuation_from_state\(&self\) -> Continuation", src)
    if not m:
        raise TieBroken("new_open_continuation_from_state not found")
    b = block_at(src, m.start())
    f["open_copies_from_sp"] = bool(re.search(r"let offset = self\.get_offset\(\);", b) and
                                    re.search(r"current_stack_values: self\.thread\.stack\[offset\.\.\]\.to_vec\(\)", b) and
                                    re.search(r"ip: self\.ip,\s*sp: self\.sp,\s*pop_count: self\.pop_count,", b))
    # close: current state, stack truncated to open.sp + saved values, ip/sp/pop_count from the mark
    m = re.search(r"pub fn close\(&mut self, ctx: &VmCore<'_>\)", src)
    if not m:
        raise TieBroken("ContinuationMark::close not found")
    b = block_at(src, m.start())
    f["close_rebuilds"] = bool(re.search(r"let mut continuation = ctx\.new_closed_continuation_from_state\(\);", b) and
                               re.search(r"continuation\.stack\.truncate\(open\.sp\);\s*continuation\.stack\.append\(&mut open\.current_stack_values\);", b) and
                               re.search(r"continuation\.ip = open\.ip;\s*continuation\.sp = open\.sp;\s*continuation\.pop_count = open\.pop_count;", b))
    # normal return closes the popped frame's marks before truncating the stack
    n = 0
    for name in ("handle_pop_pure_value", "handle_pop_pure"):
        m = re.search(r"fn " + name + r"\(&mut self", src)
        if not m:
            raise TieBroken(name + " not found")
        b = block_at(src, m.start())
        i1 = b.find("self.close_continuation_marks(&last);")
        i2 = min([x for x in (b.find("self.thread.stack.truncate(rollback_index"), b.find(".drain(rollback_index")) if x >= 0] or [-1])
        if 0 <= i1 < i2:
            n += 1
    f["pop_closes_before_truncate"] = n == 2
    # reinstating an open mark: pop frames down to the marked one
    m = re.search(r"pub fn set_state_from_continuation\(ctx: &mut VmCore<'_>, this: Self\)", src)
    if not m:
        raise TieBroken("Continuation::set_state_from_continuation not found")
    b = block_at(src, m.start())
    f["open_reinstate_pops"] = bool(re.search(r"while let Some\(stack_frame\) = ctx\.thread\.stack_frames\.pop\(\) \{\s*ctx\.pop_count -= 1;", b) and
                                    re.search(r"ctx\.thread\.stack\.truncate\(open\.sp\);", b) and
                                    re.search(r"ctx\.thread\.stack\.extend\(open\.current_stack_values\.clone\(\)\);", b))
    bl = lambda x: "true" if x else "false"
    text = "\n".join(
        ["(* GENERATED by checks/c08.py on every run from %s — do not edit. *)" % VM,
         "(* both error-unwind loops close the popped frame's continuation mark (the mark is still attached when",
         "   close_continuation_marks(&last) runs) *)",
         "Definition unwind_closes_marks : bool := %s." % bl(f["unwind_closes_marks"]),
         "(* reinstating an open mark that is still referenced elsewhere closes it (no weak_count condition) *)",
         "Definition reinstate_closes_when_shared : bool := %s." % bl(f["reinstate_closes_when_shared"]),
         "(* call_cc builds the continuation before pushing the receiver's frame and attaches the mark to that frame *)",
         "Definition capture_before_push : bool := %s." % bl(f["capture_before_push"]),
         "(* an open mark keeps stack[sp..], ip, sp, pop_count *)",
         "Definition open_copies_from_sp : bool := %s." % bl(f["open_copies_from_sp"]),
         "(* close = current stack truncated to open.sp ++ saved values, current frames, ip/sp/pop_count of the mark *)",
         "Definition close_rebuilds : bool := %s." % bl(f["close_rebuilds"]),
         "(* handle_pop_pure(_value) close the popped frame's marks before the stack is truncated *)",
         "Definition pop_closes_before_truncate : bool := %s." % bl(f["pop_closes_before_truncate"]),
         "(* reinstating an open mark pops frames (pop_count - 1 each) down to the marked one, then truncates to open.sp *)",
         "Definition open_reinstate_pops : bool := %s." % bl(f["open_reinstate_pops"]),
         ""])
    if ck is not None:
        ck.translate("Gen_C08", text)
    return f, text


# ------------------------------------------------------------------------------------------------
# generator
# ------------------------------------------------------------------------------------------------
def S(s):
    return ("str", s)


def lam0(*body):
    return ("lam", [], None, list(body))


class Gen8(lang.Gen):
    """lang.Gen extended with control operators.  Special environment entries:
         name -> ("k", ty)            an escape continuation expecting a value of type ty (in scope lexically)
         name -> ("kb", ty, cnt, n)   a box for a re-entrant continuation expecting ty, with its re-entry counter box
       Mutable state is kept in boxes and globals only: a set! of a stack-allocated local is undone by re-entry
       (known finding C08-SETLOCAL-REENTRY, exercised by fixed corpus programs, excluded here)."""

    P_CTL = 0.30

    def __init__(self, rng):
        super().__init__(rng)
        self.wid = 0
        self.captured = set()

    def konts(self, env):
        return [(x, t) for x, t in env.items() if isinstance(t, tuple) and t[0] == "k"]

    def kboxes(self, env, ty):
        return [(x, t) for x, t in env.items() if isinstance(t, tuple) and t[0] == "kb" and t[1] == ty]

    def expr(self, ty, d, env):
        r = self.rng
        # a re-entry box in scope that has no capture site yet: place one eagerly
        pend = [(x, t) for x, t in self.kboxes(env, ty) if x not in self.captured]
        if pend and r.random() < 0.45:
            return self.capture_site(pend[0][0], ty, d, env)
        ks = self.konts(env)
        if ks and d > 0 and r.random() < 0.10:
            self.stat("throw")
            x, t = r.choice(ks)
            return A(x, self.expr(t[1], d - 1, env))
        if d > 0 and r.random() < self.P_CTL:
            e = self.control(ty, d, env)
            if e is not None:
                return e
        return super().expr(ty, d, env)

    def capture_site(self, x, ty, d, env):
        self.stat("capture-reentrant")
        self.captured.add(x)
        c = self.fresh("k")
        env2 = dict(env)
        env2[c] = ("k", ty)          # may also be thrown to while its mark is still open
        return A("call/cc", ("lam", [c], None, [A("set-box!", V(x), V(c)), self.expr(ty, max(d - 1, 0), env2)]))

    def trace(self, tag):
        return A("display", S(tag))

    def control(self, ty, d, env):
        r = self.rng
        ks = self.konts(env)
        kbs = self.kboxes(env, ty)
        k = r.random()
        if ks and k < 0.18:
            # throw to an escape continuation in scope: the expression never returns, usable at every type
            self.stat("throw")
            x, t = r.choice(ks)
            return A(x, self.expr(t[1], d - 1, env))
        if kbs and k < 0.30:
            # (another) capture site of a re-entrant continuation: (call/cc (lambda (c) (set-box! kb c) e0))
            return self.capture_site(r.choice(kbs)[0], ty, d, env)
        if k < 0.40:
            self.stat("callcc-escape")
            x = self.fresh("k")
            env2 = dict(env)
            env2[x] = ("k", ty)
            body = [self.expr(ty, d - 1, env2)]
            if r.random() < 0.3:
                body = [self.trace("c%s " % x[1:])] + body
            return A("call/cc", ("lam", [x], None, body))
        if k < 0.62:
            self.stat("dynamic-wind")
            self.wid += 1
            w = self.wid
            before = [self.trace("<%d " % w)]
            after = [self.trace("%d> " % w)]
            if r.random() < 0.15:
                # capture (and possibly escape) inside a wind thunk
                self.stat("callcc-in-wind-thunk")
                q = self.fresh("k")
                env2 = dict(env)
                env2[q] = ("k", "int")
                tgt = before if r.random() < 0.5 else after
                tgt.append(A("call/cc", ("lam", [q], None, [self.expr("int", d - 2, env2)])))
            if ks and r.random() < 0.08:
                self.stat("throw-from-wind-thunk")
                x, t = r.choice(ks)
                # only from `after` thunks: a `before` thunk that escapes while a jump is re-entering extents sees the
                # winders list half updated on the engine (updated per extent) but not in the reference (updated at the end)
                after.append(("when", self.expr("bool", 1, env), [A(x, self.expr(t[1], 1, env))]))
            return A("dynamic-wind", lam0(*before), lam0(self.expr(ty, d - 1, env)), lam0(*after))
        if k < 0.78:
            return self.reentry_block(ty, d, env)
        if k < 0.88:
            self.stat("handler-ctl")
            e = self.fresh("e")
            hbody = [self.trace("H "), self.expr(ty, d - 2, env)]
            if r.random() < 0.3:
                # a continuation captured inside the handler
                self.stat("callcc-in-handler")
                q = self.fresh("k")
                env2 = dict(env)
                env2[q] = ("k", ty)
                hbody = [self.trace("H "), A("call/cc", ("lam", [q], None, [self.expr(ty, d - 2, env2)]))]
            body = self.expr(ty, d - 1, env) if r.random() < 0.5 else \
                ("begin", [self.trace("b "), self.error_expr(d - 1, env), self.expr(ty, 0, env)])
            return ("handler", ("lam", [e], None, hbody), [body])
        if k < 0.94:
            self.stat("for-each")
            x = self.fresh("x")
            env2 = dict(env)
            env2[x] = "int"
            return ("begin", [A("for-each", ("lam", [x], None, [A("display", self.expr("int", d - 2, env2))]),
                               self.expr("ilist", d - 1, env)), self.expr(ty, d - 1, env)])
        # a loop whose body may capture / throw (tail calls around the capture point)
        self.stat("loop-ctl")
        lp, i, acc = self.fresh("loop"), self.fresh("i"), self.fresh("acc")
        env2 = dict(env)
        env2[i] = "int"
        env2[acc] = ty
        return ("nlet", lp, [(i, I(r.choice([1, 2, 3]))), (acc, self.expr(ty, d - 2, env))],
                [("if", A("<=", V(i), I(0)), V(acc), A(lp, A("-", V(i), I(1)), self.expr(ty, d - 1, env2)))])

    def reentry_block(self, ty, d, env):
        r = self.rng
        self.stat("reentry-block")
        kb, cnt, v = self.fresh("kb"), self.fresh("cnt"), self.fresh("v")
        n = r.choice([0, 1, 1, 2, 3])
        env2 = dict(env)
        env2[kb] = ("kb", ty, cnt, n)
        inner = self.expr(ty, d - 1, env2)
        env3 = dict(env)
        env3[v] = ty
        again = A(A("unbox", V(kb)), self.expr(ty, d - 2, env3))
        return ("let", [(kb, A("box", ("bool", False))), (cnt, A("box", I(0)))],
                [("let", [(v, inner)],
                  [self.trace("r%s=" % kb[2:]),
                   # only values whose display form the reference renders like the engine
                   (A("display", V(v)) if ty in ("int", "bool", "str", "ilist", "sym") else self.trace("_")), self.trace(" "),
                   ("if", ("and", [A("unbox", V(kb)), A("<", A("unbox", V(cnt)), I(n))]),
                    ("begin", [A("set-box!", V(cnt), A("+", A("unbox", V(cnt)), I(1))), again]),
                    V(v))])])

    def program(self, nforms=None, depth=None):
        """definitions (variables, functions whose bodies may use control operators) followed by ONE top-level
        expression (main) inside which every capture and every invocation happens."""
        r = self.rng
        self.globals = {}
        self.funcs = {}
        self.mutable = set()
        self.local_mut = set()
        forms = []
        d = depth or r.choice([2, 3, 3, 4])
        for _ in range(r.choice([0, 1, 2, 4])):
            forms.append(self.toplevel_define_var(min(d, 2)) if r.random() < 0.5 else self.toplevel_define_fn(d))
        ty = r.choice(["int", "int", "ilist", "bool", "str"])
        e = self.control(ty, d + 1, dict(self.globals)) if r.random() < 0.7 else None
        body = [e if e is not None else self.expr(ty, d + 1, dict(self.globals))]
        if r.random() < 0.5:
            body = [self.trace("main ")] + body
        forms.append(("define", "main", ("lam", [], None, body)))
        forms.append(A("main"))
        return forms


def has_ctl(src):
    return "call/cc" in src or "dynamic-wind" in src or "with-handler" in src


KNAME = re.compile(r"^(k\d+|kb\d*|esc|out)$")


def handler_crossing(forms):
    """Decidable, syntactic: some variable holding a continuation (named k<n>, kb<n>, esc, out by the generators) is
    referred to inside a with-handler (body or handler procedure) that does not enclose its binding: a jump through it
    crosses the handler's reset boundary."""
    found = []

    def walk(e, scope, hd):
        if isinstance(e, list):
            for x in e:
                walk(x, scope, hd)
            return
        if not isinstance(e, tuple) or not e:
            return
        t = e[0]
        if t == "var":
            if KNAME.match(e[1]) and scope.get(e[1], hd) < hd:
                found.append(e[1])
            return
        if t == "lam":
            sc = dict(scope)
            for p in e[1]:
                sc[p] = hd
            walk(e[3], sc, hd)
            return
        if t in ("let", "let*", "letrec"):
            sc = dict(scope)
            for x, v in e[1]:
                walk(v, sc if t != "let" else scope, hd)
                sc[x] = hd
            walk(e[2], sc, hd)
            return
        if t == "nlet":
            sc = dict(scope)
            for x, v in e[2]:
                walk(v, scope, hd)
                sc[x] = hd
            walk(e[3], sc, hd)
            return
        if t == "handler":
            walk(e[1], scope, hd + 1)
            walk(e[2], scope, hd + 1)
            return
        if t == "cond":
            for c, body in e[1]:
                walk(c, scope, hd)
                walk(body, scope, hd)
            if e[2] is not None:
                walk(e[2], scope, hd)
            return
        if t in ("quote", "int", "bool", "str", "sym", "void", "char"):
            return
        for x in e[1:]:
            if isinstance(x, (tuple, list)):
                walk(x, scope, hd)
    walk(forms, {}, 0)
    return bool(found)


# ------------------------------------------------------------------------------------------------
# fixed corpus (Steel text + python AST both needed: written as ASTs)
# ------------------------------------------------------------------------------------------------
def P(*forms):
    return list(forms)


def main_of(*body):
    return [("define", "main", ("lam", [], None, list(body))), A("main")]


def disp(e):
    return A("display", e)


def corpus():
    out = []
    kb, cnt = V("kb"), V("cnt")
    # re-entry through a stored continuation with pending temporaries (argument position), 3 times
    out.append(("reenter-argpos", main_of(
        ("let", [("kb", A("box", ("bool", False))), ("cnt", A("box", I(0)))],
         [disp(A("list", I(1), A("call/cc", ("lam", ["c"], None, [A("set-box!", kb, V("c")), I(2)])), A("unbox", cnt))),
          ("if", A("<", A("unbox", cnt), I(3)),
           ("begin", [A("set-box!", cnt, A("+", A("unbox", cnt), I(1))), A(A("unbox", kb), A("*", I(10), A("unbox", cnt)))]),
           ("sym", "done"))]))))
    # re-entry after the capturing frames have been popped (closed mark), from a deeper stack
    out.append(("reenter-after-return", P(
        ("define", "deep", ("lam", ["n", "kb"], None,
                            [("if", A("<=", V("n"), I(0)),
                              A("call/cc", ("lam", ["c"], None, [A("set-box!", V("kb"), V("c")), I(0)])),
                              A("+", V("n"), A("deep", A("-", V("n"), I(1)), V("kb"))))])),
        *main_of(("let", [("kb", A("box", ("bool", False))), ("cnt", A("box", I(0)))],
                  [disp(A("deep", I(5), kb)), disp(S(" ")),
                   ("if", A("<", A("unbox", cnt), I(2)),
                    ("begin", [A("set-box!", cnt, A("+", A("unbox", cnt), I(1))),
                               A("+", I(1000), A(A("unbox", kb), A("*", I(100), A("unbox", cnt))))]),
                    ("sym", "done"))])))))
    # dynamic-wind: escape, re-entry, error
    w = lambda i, body: A("dynamic-wind", lam0(disp(S("<%d " % i))), lam0(*body), lam0(disp(S("%d> " % i))))
    out.append(("wind-reenter-nested", main_of(
        ("let", [("kb", A("box", ("bool", False))), ("cnt", A("box", I(0)))],
         [w(1, [w(2, [A("call/cc", ("lam", ["c"], None, [A("set-box!", kb, V("c"))])), disp(S("body "))])]),
          ("if", A("<", A("unbox", cnt), I(2)),
           ("begin", [A("set-box!", cnt, A("+", A("unbox", cnt), I(1))), A(A("unbox", kb), I(0))]),
           ("sym", "done"))]))))
    out.append(("wind-error-handler", main_of(
        ("handler", ("lam", ["e"], None, [disp(S("H ")), I(99)]),
         [w(1, [w(2, [disp(S("body ")), A("error", S("boom")), disp(S("not"))])])]))))
    out.append(("wind-error-uncaught", main_of(w(1, [w(2, [A("car", ("quote", ("dlist", [])))])]))))
    out.append(("wind-sibling-jump", main_of(
        ("let", [("kb", A("box", ("bool", False))), ("cnt", A("box", I(0)))],
         [w(1, [A("call/cc", ("lam", ["c"], None, [A("set-box!", kb, V("c"))])), disp(S("one "))]),
          w(2, [disp(S("two ")),
                ("when", A("<", A("unbox", cnt), I(1)),
                 [A("set-box!", cnt, I(1)), A(A("unbox", kb), I(0))])]),
          ("sym", "done")]))))
    # escape out of a nested extent into the enclosing extent's body (the common tail must be found)
    out.append(("wind-nested-escape", main_of(
        w(1, [A("call/cc", ("lam", ["k"], None, [disp(S("c ")), w(2, [A("k", I(0))])]))]))))
    # same thunk objects used by two activations of dynamic-wind (do-wind compares winders with equal?)
    out.append(("wind-shared-thunks", P(
        ("define", "tin", lam0(disp(S("<in ")))), ("define", "tout", lam0(disp(S("out> ")))),
        *main_of(("let", [("kb", A("box", ("bool", False))), ("cnt", A("box", I(0)))],
                  [A("dynamic-wind", V("tin"), lam0(A("call/cc", ("lam", ["c"], None, [A("set-box!", kb, V("c"))])), disp(S("one "))), V("tout")),
                   A("dynamic-wind", V("tin"), lam0(disp(S("two ")),
                                                    ("when", A("<", A("unbox", cnt), I(1)),
                                                     [A("set-box!", cnt, I(1)), A(A("unbox", kb), I(0))])), V("tout")),
                   ("sym", "done")])))))
    # handler: escape out of the body; a later error must not reach the abandoned handler
    out.append(("handler-escape-then-error", main_of(
        ("handler", ("lam", ["e"], None, [disp(S("outer ")), I(1)]),
         [A("call/cc", ("lam", ["esc"], None,
                        [("handler", ("lam", ["e"], None, [disp(S("inner ")), I(2)]), [A("esc", I(7))])])),
          A("error", S("after"))]))))
    # continuation captured in a frame that an error then unwinds (the mark must be closed by the unwind), re-entered
    # afterwards; the re-entered body leaves through a continuation captured outside the handler
    out.append(("reenter-after-error-unwind", main_of(
        ("let", [("kb", A("box", ("bool", False)))],
         [("let", [("r", A("call/cc", ("lam", ["out"], None,
                                       [("handler", ("lam", ["e"], None, [("sym", "caught")]),
                                         [("let", [("v", A("+", I(1), A("call/cc", ("lam", ["c"], None,
                                                                                  [A("set-box!", kb, V("c")), A("error", S("x"))]))))],
                                           [A("out", A("list", ("sym", "reentered"), V("v")))])])])))],
           [disp(V("r")), disp(S(" ")),
            ("if", A("equal?", V("r"), ("sym", "caught")), A(A("unbox", kb), I(5)), V("r"))])]))))
    # a continuation invoked while still open, after an inner continuation was captured and closed (its frame copies
    # keep weak references to the outer mark), then invoked again
    out.append(("open-invoke-twice-shared", main_of(
        ("let", [("kb", A("box", ("bool", False))), ("k2", A("box", ("bool", False))), ("cnt", A("box", I(0)))],
         [("let", [("v", A("call/cc", ("lam", ["k1"], None,
                                       [A("set-box!", kb, V("k1")),
                                        A("call/cc", ("lam", ["q"], None, [A("set-box!", V("k2"), V("q")), I(0)])),
                                        A("k1", I(1))])))],
           [disp(V("v")),
            ("if", A("<", A("unbox", cnt), I(2)),
             ("begin", [A("set-box!", cnt, A("+", A("unbox", cnt), I(1))), A(A("unbox", kb), I(7))]),
             ("sym", "done"))])]))))
    # generator: walk a list with re-entry in both directions
    out.append(("generator-pingpong", P(
        ("define", "make-gen", ("lam", ["lst"], None,
                                [("define", "ret", A("box", ("bool", False))),
                                 ("define", "resume", A("box", ("bool", False))),
                                 ("define", "walk", lam0(
                                     A("for-each", ("lam", ["x"], None,
                                                    [A("call/cc", ("lam", ["k"], None,
                                                                   [A("set-box!", V("resume"), V("k")), A(A("unbox", V("ret")), V("x"))]))]),
                                       V("lst")),
                                     A(A("unbox", V("ret")), ("sym", "eof")))),
                                 lam0(A("call/cc", ("lam", ["r"], None,
                                                    [A("set-box!", V("ret"), V("r")),
                                                     ("if", A("unbox", V("resume")), A(A("unbox", V("resume")), I(0)), A("walk"))])))])),
        *main_of(("let", [("g", A("make-gen", A("list", I(1), I(2), I(3))))],
                  [A("list", A("g"), A("g"), A("g"), A("g"))])))))
    # map callback re-entered
    out.append(("reenter-map-callback", main_of(
        ("let", [("kb", A("box", ("bool", False))), ("cnt", A("box", I(0)))],
         [disp(A("map", ("lam", ["x"], None,
                         [("if", A("=", V("x"), I(2)),
                           A("call/cc", ("lam", ["c"], None, [A("set-box!", kb, V("c")), V("x")])), A("*", V("x"), V("x")))]),
                 A("list", I(1), I(2), I(3)))),
          ("if", A("<", A("unbox", cnt), I(2)),
           ("begin", [A("set-box!", cnt, A("+", A("unbox", cnt), I(1))), A(A("unbox", kb), A("+", I(40), A("unbox", cnt)))]),
           ("sym", "done"))]))))
    # re-entry into a with-handler body after it has exited, then an error in the re-entered body
    out.append(("reenter-handler-body-then-error", main_of(
        ("let", [("kb", A("box", ("bool", False))), ("cnt", A("box", I(0)))],
         [disp(("handler", ("lam", ["e"], None, [disp(S("H ")), ("sym", "handled")]),
                [("let", [("v", A("call/cc", ("lam", ["c"], None, [A("set-box!", kb, V("c")), I(0)])))],
                  [("if", A("=", V("v"), I(0)), ("sym", "first"), A("error", S("second")))])])),
          disp(S(" ")),
          ("if", A("<", A("unbox", cnt), I(1)),
           ("begin", [A("set-box!", cnt, I(1)), A(A("unbox", kb), I(1))]),
           ("sym", "done"))]))))
    return out


def setlocal_corpus():
    """set! of a stack-allocated local, then re-entry: Scheme (variables are locations) expects the assignment to
    persist; Steel restores the captured stack slot."""
    kb, cnt = V("kb"), V("cnt")
    prog = main_of(
        ("let", [("kb", A("box", ("bool", False))), ("cnt", A("box", I(0))), ("m", I(0))],
         [A("call/cc", ("lam", ["c"], None, [A("set-box!", kb, V("c"))])),
          ("set", "m", A("+", V("m"), I(10))), disp(V("m")), disp(S(" ")),
          ("if", A("<", A("unbox", cnt), I(2)),
           ("begin", [A("set-box!", cnt, A("+", A("unbox", cnt), I(1))), A(A("unbox", kb), I(0))]),
           V("m"))]))
    return [("setlocal-reentry", prog)]


# reset / shift: not part of the reference machine; a few classic programs with the answers the standard semantics of
# delimited control gives (worked out by hand), as Steel text
# dynamic-wind whose AFTER thunk raises, escapes or captures a continuation (on normal return of the body): the after
# thunk runs exactly once per exit and the extent counts as left while it runs (hand-computed traces)
WIND_PRE = "(define trace '()) (define (note x) (set! trace (cons x trace))) "
WIND_AFTER = [
    (WIND_PRE + "(define (t) (let ([r (call/cc (lambda (k0) (with-handler (lambda (e) (note 'caught) (k0 'escaped)) (dynamic-wind (lambda () (note 'before)) "
     "(lambda () (note 'body) 'b) (lambda () (note 'after) (error \"in-after\"))))))]) (list r (reverse trace)))) (t)",
     "OK ('\"escaped\" ('\"before\" '\"body\" '\"after\" '\"caught\")) ;; OUT "),
    (WIND_PRE + "(define (t) (let ([r (call/cc (lambda (k0) (dynamic-wind (lambda () (note 'before)) (lambda () (note 'body)) (lambda () (note 'after) (k0 'out)))))]) "
     "(list r (reverse trace)))) (t)",
     "OK ('\"out\" ('\"before\" '\"body\" '\"after\")) ;; OUT "),
    (WIND_PRE + "(define (t) (let ([kin (box #f)] [count (box 0)]) (dynamic-wind (lambda () (note 'before)) (lambda () (note 'body)) "
     "(lambda () (call/cc (lambda (k) (set-box! kin k))) (note 'after))) (if (< (unbox count) 1) (begin (set-box! count (+ (unbox count) 1)) ((unbox kin) 'again)) "
     "(reverse trace)))) (t)",
     "OK ('\"before\" '\"body\" '\"after\" '\"after\") ;; OUT "),
    (WIND_PRE + "(define (t) (let ([r (call/cc (lambda (k0) (with-handler (lambda (e) (note 'caught) (k0 'escaped)) (dynamic-wind (lambda () (note 'b1)) "
     "(lambda () (dynamic-wind (lambda () (note 'b2)) (lambda () (note 'body)) (lambda () (note 'a2) (error \"x\")))) (lambda () (note 'a1))))))]) "
     "(list r (reverse trace)))) (t)",
     "OK ('\"escaped\" ('\"b1\" '\"b2\" '\"body\" '\"a2\" '\"a1\" '\"caught\")) ;; OUT "),
    (WIND_PRE + "(define (t) (let ([r (with-handler (lambda (e) (note 'caught) 'handled) (dynamic-wind (lambda () (note 'before)) (lambda () (note 'body) 'b) "
     "(lambda () (note 'after) (error \"in-after\"))))]) (let ([r2 (call/cc (lambda (k) (dynamic-wind (lambda () (note 'b2)) (lambda () (k 'out2)) "
     "(lambda () (note 'a2)))))]) (list r r2 (reverse trace))))) (t)",
     "OK ('\"handled\" '\"out2\" ('\"before\" '\"body\" '\"after\" '\"caught\" '\"b2\" '\"a2\")) ;; OUT "),
]

DELIM = [
    ("(define (t) (+ 1 (reset (* 2 (shift k (k (k 3))))))) (t)", "OK I13 ;; OUT "),
    ("(define (t) (reset (+ 1 (shift k 10)))) (t)", "OK I10 ;; OUT "),
    ("(define (t) (reset (cons 1 (shift k (list (k (list)) (k (list 9))))))) (t)", "OK ((I1) (I1 I9)) ;; OUT "),
    ("(define (t) (+ 100 (reset (+ 1 (shift k1 (+ 10 (reset (* 2 (shift k2 (k1 (k2 3))))))))))) (t)", "OK I117 ;; OUT "),
    ("(define (t) (reset (begin (display \"a\") (shift k (begin (display \"b\") (k 0) (display \"c\") (k 0) 'end)) (display \"d\")))) (t)",
     "OK '\"end\" ;; OUT abdcd"),
    ("(define (t) (with-handler (lambda (e) (list 'h (reset (+ 1 (shift k (k (k 1))))))) (reset (+ 1 (shift k (error \"x\")))))) (t)",
     "OK ('\"h\" I3) ;; OUT "),
]


# ------------------------------------------------------------------------------------------------
# known-finding classes
# ------------------------------------------------------------------------------------------------
def set_local_then_reenter(case, params):
    """the program assigns (set!) a local variable that no closure captures, after capturing a continuation in the
    same frame, and re-enters that continuation"""
    eng = case.get("engine", "")
    return case.get("class") == "setlocal-reentry" and not any(x in eng for x in ("PANIC", "CRASH", "HANG"))


def jit_only_abort(case, params):
    """the host process aborts (signal 6) with the JIT on while the same program, JIT off, agrees with the reference"""
    return (case.get("jit") == "jit-on" and case.get("engine", "").startswith("CRASH -6")
            and case.get("engine_jit_off") == case.get("reference"))


def jump_crosses_handler(case, params):
    """a continuation jump crosses a with-handler boundary (escape out of, or re-entry into, a with-handler body or
    handler procedure): checks/c08.py handler_crossing on the program"""
    # a host panic / crash / hang is never part of this class, whatever the program looks like
    eng = case.get("engine", "")
    return case.get("handler_crossing") is True and not any(x in eng for x in ("PANIC", "CRASH", "HANG"))


# ------------------------------------------------------------------------------------------------
# run
# ------------------------------------------------------------------------------------------------
JIT_ENVS = [("jit-on", None), ("jit-off", {"STEEL_JIT": "false"})]


def excluded(e, m):
    return "FUEL" in m or "HANG" in e


def in_domain(forms):
    """shrinking candidates must stay inside the generator's domain: handler expressions, wind thunks and call/cc
    receivers are lambda expressions, and no continuation variable crosses a with-handler boundary"""
    ok = [True]

    def walk(e):
        if isinstance(e, list):
            for x in e:
                walk(x)
            return
        if not isinstance(e, tuple) or not e:
            return
        if e[0] == "handler" and not (isinstance(e[1], tuple) and e[1][0] == "lam"):
            ok[0] = False
        if e[0] == "app" and isinstance(e[1], tuple) and e[1][0] == "var" and e[1][1] in ("call/cc", "dynamic-wind"):
            if not all(isinstance(a, tuple) and a[0] in ("lam", "var") for a in e[2]):
                ok[0] = False
        if e[0] in ("quote", "int", "bool", "str", "sym", "void", "char", "var"):
            return
        for x in e[1:]:
            if isinstance(x, (tuple, list)):
                walk(x)
    walk(forms)
    return ok[0] and not handler_crossing(forms)


def shrink_case(ck, prog, env=None):
    def fails(cands):
        idx = [i for i, c in enumerate(cands) if in_domain(c)]
        out = [False] * len(cands)
        if idx:
            res = compare(ck, [[cands[i]] for i in idx], env=env)
            for i, (e, m) in zip(idx, res):
                out[i] = e != m and not excluded(e, m)
        return out
    try:
        return lang.shrink(prog, fails, max_rounds=8)
    except Exception as ex:
        ck.log("shrink failed: %s" % ex)
        return prog


NRC_PROGRAMS = [
    ("(with-handler (lambda (e) 'outer) (with-handler (lambda (e) (error \"again\")) (error \"body\")))", "'\"outer\"", ""),
    ("(with-handler (lambda (e) 'outer) (with-handler (lambda (e) (car '())) (vector-ref (vector) 1)))", "'\"outer\"", ""),
    ("(with-handler (lambda (e) 'o3) (with-handler (lambda (e) (error \"m\")) (with-handler (lambda (e) (error \"i\")) (error \"b\"))))", "'\"o3\"", ""),
    ("(with-handler (lambda (e) 'caught) (dynamic-wind (lambda () (display \"<\")) (lambda () (error \"x\")) (lambda () (display \">\"))))", "'\"caught\"", "<>"),
    ("(with-handler (lambda (e) 'ok) (error \"plain\"))", "'\"ok\"", ""),
    ("(with-handler (lambda (e) 'outer) (list 1 (with-handler (lambda (e) (error \"e2\")) (error \"e1\"))))", "'\"outer\"", ""),
    ("(list (with-handler (lambda (e) 'a) (error \"1\")) (with-handler (lambda (e) 'b) (with-handler (lambda (e) (error \"3\")) (error \"2\"))))",
     "('\"a\" '\"b\")", ""),
    ("(with-handler (lambda (e) (display \"o \") 1) (call/cc (lambda (esc) (with-handler (lambda (e) 2) (esc 7)))) (error \"after\"))", "I1", "o "),
    ("(with-handler (lambda (e) 'o3) (list 2 (with-handler (lambda (e) (error \"m\")) (list 3 (with-handler (lambda (e) (error \"i\")) (error \"b\"))))))",
     "'\"o3\"", ""),
    ("(+ 1 (with-handler (lambda (e) 10) (+ 100 (with-handler (lambda (e) (error \"again\")) (error \"body\")))))", "I11", ""),
]
NRC_CONTEXTS = [
    ("plain", "%s"),
    ("native-thread", "(thread-join! (spawn-native-thread (lambda () %s)))"),
    ("transducer-callback", "(car (transduce (list 0) (mapping (lambda (x) %s)) (into-list)))"),
    ("apply", "(apply (lambda () %s) '())"),
    ("eval", "(eval '%s)"),
    ("map-callback", "(car (map (lambda (x) %s) (list 0)))"),
    ("sort-comparator", "(begin (define c08r #f) (sort (list 2 1) (lambda (a b) (set! c08r %s) (< a b))) c08r)"),
    ("filtering-callback", "(begin (define c08h #f) (transduce (list 1) (filtering (lambda (x) (set! c08h %s) #t)) (into-list)) c08h)"),
    ("for-each-callback", "(begin (define c08f #f) (for-each (lambda (x) (set! c08f %s)) (list 0)) c08f)"),
    ("hash-callback", "(begin (define c08g #f) (transduce (hash 1 2) (mapping (lambda (kv) (set! c08g %s) kv)) (into-list)) c08g)"),
]


def nested_run_contexts(ck):
    """'a raised error reaches the nearest enclosing handler with the stack unwound to it' when the handlers live in a
    nested run of the VM (a closure called from Rust: thread body, transducer / sort / map callback, apply, eval) and
    when a handler itself raises or an escape leaves a with-handler: value and output fixed by the reference meaning."""
    cases, meta = [], []
    for src, want, out in NRC_PROGRAMS:
        for kn, kt in NRC_CONTEXTS:
            cases.append([kt % src])
            meta.append((src, kn, want, out))
    for label, env in JIT_ENVS:
        res = ck.eval_cases(cases, fresh=True, env=env, batch=10, timeout_per_batch=60)
        for (src, kn, want, out), units, r in zip(meta, cases, res):
            ck.cov["evaluations"] += 1
            r0 = r[0] if r else {"missing": 1}
            got = (r0.get("ok") or [json.dumps(r0)[:120]])[-1]
            got_out = "".join(x.get("out", "") for x in r if isinstance(x, dict) and "out" in x)
            if got != want or got_out != out:
                ck.failing_input("handler program in context %s (%s): value %s output %r, reference value %s output %r"
                                 % (kn, label, got, got_out, want, out),
                                 {"program": units[0], "engine": got + " ;; OUT " + got_out, "reference": want + " ;; OUT " + out,
                                  "jit": label, "class": "nested-run-context", "context": kn, "handler_crossing": False}, tag="nrc")
    ck.cov["nested_run_contexts"] = {"programs": len(NRC_PROGRAMS), "contexts": [k for k, _ in NRC_CONTEXTS]}


def run(ck):
    ck.cov["trusted_base"] = [
        "Coq 8.16.1 kernel, coqc; vm_compute for model evaluation",
        "reference semantics coq/lib/Lang.v (hand written CEK machine with first-class continuations, winders, handler frames)",
        "hand-written mechanism model coq/c08/Model_C08.v of vm.rs (Open / Closed continuation marks) and the translator in checks/c08.py",
        "correspondence harness (evalsrv), renderers checks/lang.py (AST -> Steel text, AST -> Coq term), generator checks/c08.py",
    ]
    ck.assumptions = [
        "every capture and invocation happens inside one top-level form (a continuation invoked from a later top-level form "
        "re-runs the rest of ITS form on the engine: excluded by construction)",
        "mutable state is in boxes, vectors and globals; set! of a stack-allocated local followed by re-entry is the known "
        "finding C08-SETLOCAL-REENTRY and is excluded from the random generator",
        "reset/shift are not in the reference machine: six classic programs are compared with hand-computed answers "
        "(with-handler is implemented with them in stdlib.scm and is covered by the generator); threads are outside",
        "errors raised inside wind thunks while another unwind is in progress are not generated",
    ]
    facts, _ = translate(ck)
    proved = ck.proof_stage(["c08"], ["c08/Properties_C08"], "c08/Pins_C08.v")
    ck.log("proof stage done: %s" % proved)
    ck.harness_build(["evalsrv"])
    g = Gen8(ck.rng)
    n = 170 if ck.tier == "quick" else 2000
    fixed = corpus() + setlocal_corpus()
    progs = [p for _, p in fixed]
    classes = [c for c, _ in fixed]
    tries = 0
    while len(progs) < len(fixed) + n and tries < 20 * n:
        tries += 1
        p = g.program()
        if has_ctl(lang.unit_to_steel(p)):
            progs.append(p)
            classes.append("generated")
    nontrivial = set()
    hist = {}
    shrunk = 0
    results = {}
    for label, env in JIT_ENVS:
        results[label] = compare(ck, [[p] for p in progs], env=env)
        ck.log("%s: compared %d programs" % (label, len(progs)))
    for label, env in JIT_ENVS:
        res = results[label]
        for pi, (p, cls, (e, m)) in enumerate(zip(progs, classes, res)):
            ck.cov["evaluations"] += 1
            src = lang.unit_to_steel(p)
            case = {"program": src, "engine": e, "reference": m, "jit": label, "class": cls,
                    "handler_crossing": handler_crossing(p), "engine_jit_off": results["jit-off"][pi][0]}
            if excluded(e, m):
                ck.cov["out_of_fuel"] = ck.cov.get("out_of_fuel", 0) + 1
                continue
            feats = tuple(sorted(f for f in ("call/cc", "dynamic-wind", "with-handler", "(unbox kb", "error", "for-each", "map")
                                 if f in src))
            hist[" + ".join(feats)] = hist.get(" + ".join(feats), 0) + 1
            if ("call/cc" in src and ("OUT " in m and len(m.split("OUT ", 1)[1]) > 0)):
                nontrivial.add((m, feats))
            if ck.cov["evaluations"] % 57 == 1:
                ck.sample(case)
            if e != m:
                if cls == "generated" and not case["handler_crossing"] and shrunk < 2 and "CRASH" not in e:
                    shrunk += 1
                    small = shrink_case(ck, p, env=env)
                    (e2, m2), = compare(ck, [[small]], env=env)
                    case = {"program": lang.unit_to_steel(small), "engine": e2, "reference": m2, "jit": label, "class": cls,
                            "handler_crossing": handler_crossing(small), "original_program": src}
                ck.failing_input("engine and reference semantics differ (%s, %s): engine %s | reference %s" % (
                    cls, label, case["engine"][:300], case["reference"][:300]), case, tag="sem")
    # handlers whose handler raises / escapes, inside every kind of nested VM run (a closure called from Rust)
    nested_run_contexts(ck)
    # delimited control: engine against hand-computed answers
    for label, env in JIT_ENVS:
        res = ck.eval_cases([[src] for src, _ in DELIM + WIND_AFTER], fresh=True, env=env, batch=4, timeout_per_batch=60)
        for (src, want), r in zip(DELIM + WIND_AFTER, res):
            ck.cov["evaluations"] += 1
            got = engine_render(r)
            if got != want:
                ck.failing_input("reset/shift program (%s): engine %s, expected %s" % (label, got, want),
                                 {"program": src, "engine": got, "reference": want, "jit": label, "class": "delimited"}, tag="delim")
    ck.cov["distinct_nontrivial"] = len(nontrivial)
    ck.cov["rule"] = ("programs from checks/c08.py Gen8 (C01 grammar + call/cc escapes in any expression position, throws, "
                      "re-entrant capture sites stored in boxes and re-invoked 0-3 times, dynamic-wind with capture/throw inside "
                      "the thunks, handlers with capture inside, for-each/map/foldl callbacks, loops) plus the fixed corpus; each "
                      "program runs with STEEL_JIT on and off; distinct = distinct (reference outcome incl. display trace, feature "
                      "set); non-trivial = uses call/cc and produces a non-empty trace")
    ck.cov["feature_histogram"] = hist
    ck.cov["construct_histogram"] = g.stats
    ck.cov["vm_shape_facts"] = facts
    if not proved and not ck.violations:
        ck.unproved()
    elif not proved:
        ck.notes.append("proof obligations broken: " + "; ".join(ck.proof_failures)[:1500])


def replay(ck, path):
    obj = json.load(open(path))
    case = obj.get("case")
    if not case or "program" not in case:
        print(json.dumps(obj, indent=1)[:4000])
        return
    ck.harness_build(["evalsrv"])
    env = {"STEEL_JIT": "false"} if case.get("jit") == "jit-off" else None
    res = ck.eval_cases([[case["program"]]], fresh=True, env=env)[0]
    e = engine_render(res)
    print(case["program"])
    print("engine now :", e)
    print("engine then:", case["engine"])
    print("reference  :", case["reference"])
    if e != case["reference"]:
        ck.failing_input("replay: engine and reference still differ", case, tag="replay")


if __name__ == "__main__":
    print(translate()[1])
