"""C13 — syntax-rules macros are hygienic and referentially transparent (DESIGN.md section 4, C13; F7).

Three correspondences, all on the real engine (harness evalsrv):
  (M) pattern matching / instantiation: random patterns x forms; engine vs the Coq model
      (c13.Model_C13.use_case: match_list + collect + inst) vs an independent R7RS matcher in Python.
  (H) hygiene families: generated macro definitions and uses whose VALUE reveals which binding each
      identifier resolved to; the expected value under hygienic semantics is known by construction of the
      family; the Coq model (expand_top + capture_kind) must classify the same programs the same way.
  (E) malformed uses: expansion returns a value or an error, never a panic / crash / hang.
  (G) module graphs (family module_graph, second half of this file): macros imported from modules.  Two- and
      three-level module graphs on disk, every provide-spec x require-spec form (enumerated from modules.rs on every
      run), templates whose free identifiers are imports / helpers / macros / builtins, uses in contexts that bind
      the same spellings; expected = definition-site meaning by construction.  Tied to the code by generated facts
      (coq/gen/Gen_C13mod.v) and the obligations of coq/c13/PropertiesMod_C13.v: every provide form the provide
      expansion accepts, and every local name a require binds, is in the set of names find_in_scope_macros
      qualifies inside templates.  When an obligation breaks the whole matrix is searched for the failing input.
Known-finding classes (decidable from the generated case description) are defined at the bottom.
"""
import json
import os
import re

from checks import common
from checks.common import TieBroken


# ----------------------------------------------------------------------------- S-expressions
class Lit(str):
    """literal datum (number / string / boolean), kept as its source text"""
    __slots__ = ()

    def __repr__(self):
        return "Lit(%s)" % str.__repr__(self)


class Imp(list):
    """improper list: the last element is the tail"""
    __slots__ = ()


class Seq(list):
    """sequence of matches of an ellipsis pattern (binding of depth >= 1)"""
    __slots__ = ()


ELL = "..."


def show(x):
    if isinstance(x, Imp):
        return "(" + " ".join(show(y) for y in x[:-1]) + " . " + show(x[-1]) + ")"
    if isinstance(x, list):
        return "(" + " ".join(show(y) for y in x) + ")"
    return str(x)


def coq_str(s):
    return '"' + s.replace('"', '""') + '"'


def coq_sx(x):
    if isinstance(x, Imp):
        return "SL [%s] true" % "; ".join(coq_sx(y) for y in x)
    if isinstance(x, list):
        return "SL [%s] false" % "; ".join(coq_sx(y) for y in x)
    if isinstance(x, Lit):
        return "Lit %s" % coq_str(x)
    return "Id %s 0" % coq_str(x)


def coq_list(xs, f):
    return "[" + "; ".join("(" + f(x) + ")" for x in xs) + "]"


def read(text):
    """reader for the small S-expression language printed by `show` (both python's and the model's)"""
    toks = re.findall(r'"(?:[^"\\]|\\.)*"|[()\[\]]|[^\s()\[\]]+', text)
    pos = [0]

    def rd():
        t = toks[pos[0]]
        pos[0] += 1
        if t in "([":
            items = []
            imp = False
            while toks[pos[0]] not in ")]":
                if toks[pos[0]] == ".":
                    pos[0] += 1
                    imp = True
                    items.append(rd())
                else:
                    items.append(rd())
            pos[0] += 1
            return Imp(items) if imp else items
        if t == "'":
            return ["quote", rd()]
        if re.fullmatch(r"-?\d+|#t|#f|#true|#false", t) or t.startswith('"'):
            return Lit(t)
        return t
    out = []
    while pos[0] < len(toks):
        out.append(rd())
    return out


# ----------------------------------------------------------------------------- canonical values
def canon(x):
    """canonical value text (harness/src/lib.rs canon) of the quoted datum x"""
    if isinstance(x, Imp):
        items, tail = list(x[:-1]), x[-1]
        if not items:
            return canon(tail)        # ( . tail) is the tail itself
        if isinstance(tail, Imp):
            return canon(Imp(items + list(tail)))
        if isinstance(tail, list):
            return canon(items + list(tail))
        return "(" + " ".join(canon(y) for y in items) + " . " + canon(tail) + ")"
    if isinstance(x, list):
        return "(" + " ".join(canon(y) for y in x) + ")"
    if isinstance(x, Lit):
        if x.startswith('"'):
            return str(x)
        if x in ("#t", "#true"):
            return "#t"
        if x in ("#f", "#false"):
            return "#f"
        return "I" + str(x)
    return "'\"%s\"" % x


def parse_canon(text):
    """engine canonical text -> tree with pairs flattened, rendered back in `canon` normal form"""
    toks = re.findall(r'\'?"(?:[^"\\]|\\.)*"|[()]|[^\s()]+', text)
    pos = [0]

    def rd():
        t = toks[pos[0]]
        pos[0] += 1
        if t == "(":
            items = []
            tail = None
            while toks[pos[0]] != ")":
                if toks[pos[0]] == ".":
                    pos[0] += 1
                    tail = rd()
                else:
                    items.append(rd())
            pos[0] += 1
            if tail is None:
                return ("l", items, None)
            if tail[0] == "l":
                return ("l", items + tail[1], tail[2])
            return ("l", items, tail)
        return ("a", t)

    def pr(n):
        if n[0] == "a":
            return n[1]
        s = " ".join(pr(y) for y in n[1])
        if n[2] is not None:
            s += " . " + pr(n[2])
        return "(" + s + ")"
    try:
        return pr(rd())
    except Exception:
        return text


def impl_value(res):
    """observable of one evaluated unit"""
    if res is None:
        return "MISSING"
    if "ok" in res:
        return parse_canon(res["ok"][-1]) if res["ok"] else "<none>"
    if "err" in res:
        return "E:" + res["err"]
    if "crash" in res:
        return "CRASH:%s" % res["crash"]
    if "hang" in res:
        return "HANG"
    return "PANIC:" + res.get("panic", "?")[:160]


# ----------------------------------------------------------------------------- patterns
def parse_pats(items, lits, tail=None):
    """pattern forms (after the macro keyword) -> pat terms, as MacroPattern::parse_from_list does.
    pat terms: ('S',v) ('Y',s) ('L',text) ('M',p) ('N',[ps]) ('R',p)"""
    out = []
    i = 0
    items = list(items)
    while i < len(items):
        x = items[i]
        nxt = items[i + 1] if i + 1 < len(items) else None
        if isinstance(x, list):
            if isinstance(x, Imp):
                p = ("N", parse_pats(x[:-1], lits, x[-1]))
            else:
                p = ("N", parse_pats(x, lits))
        elif isinstance(x, Lit):
            p = ("L", str(x))
        elif x in lits:
            p = ("Y", x)
        else:
            p = ("S", x)
        if nxt == ELL:
            p = ("M", p)
            i += 1
        out.append(p)
        i += 1
    if tail is not None:
        out.append(("R", parse_pats([tail], lits)[0]))
    return out


def coq_pat(p):
    k = p[0]
    if k == "S":
        return "PSingle %s" % coq_str(p[1])
    if k == "Y":
        return "PSyntax %s" % coq_str(p[1])
    if k == "L":
        return "PLit %s" % coq_str(p[1])
    if k == "M":
        return "PMany (%s)" % coq_pat(p[1])
    if k == "R":
        return "PRest (%s)" % coq_pat(p[1])
    return "PNested %s" % coq_list(p[1], coq_pat)


# independent R7RS matcher ------------------------------------------------------
def split_list(x):
    if isinstance(x, Imp):
        return list(x[:-1]), x[-1]
    return list(x), None


def pmatch(p, f, lits, env):
    if isinstance(p, list):
        items, ptail = split_list(p)
        if ELL in items:
            k = items.index(ELL) - 1
            before, rep, after = items[:k], items[k], items[k + 2:]
        else:
            before, rep, after = items, None, []
        if not isinstance(f, list):
            # only `(p ... . tail)` can match a non-list: zero repetitions, the tail takes the datum
            if rep is not None and not before and not after and ptail is not None:
                for v in pattern_vars(rep, lits):
                    env[v] = Seq()
                return pmatch(ptail, f, lits, env)
            return False
        fitems, ftail = split_list(f)
        fixed = len(before) + len(after)
        if rep is None:
            if ptail is None:
                if ftail is not None or len(fitems) != fixed:
                    return False
                n = 0
            else:
                if len(fitems) < fixed:
                    return False
                n = 0
        else:
            if len(fitems) < fixed:
                return False
            n = len(fitems) - fixed
            if ptail is None and ftail is not None:
                return False
        idx = 0
        for q in before:
            if not pmatch(q, fitems[idx], lits, env):
                return False
            idx += 1
        if rep is not None:
            envs = []
            for _ in range(n):
                e2 = {}
                if not pmatch(rep, fitems[idx], lits, e2):
                    return False
                envs.append(e2)
                idx += 1
            for v in pattern_vars(rep, lits):
                env[v] = Seq(e2[v] for e2 in envs)
        for q in after:
            if not pmatch(q, fitems[idx], lits, env):
                return False
            idx += 1
        rest = fitems[idx:]
        if ptail is None:
            return not rest and ftail is None
        if not rest:
            cdr = ftail if ftail is not None else []
        else:
            cdr = Imp(rest + [ftail]) if ftail is not None else rest
        return pmatch(ptail, cdr, lits, env)
    if isinstance(p, Lit):
        return isinstance(f, Lit) and str(f) == str(p)
    if p == "_":
        return True
    if p in lits:
        return isinstance(f, str) and not isinstance(f, Lit) and f == p
    env[p] = f
    return True


def pattern_vars(p, lits):
    if isinstance(p, list):
        out = []
        for q in p:
            out += pattern_vars(q, lits)
        return out
    if isinstance(p, Lit) or p in lits or p in ("_", ELL):
        return []
    return [p]


class Mismatch(Exception):
    pass


def pinst(t, env):
    """standard syntax-rules instantiation (any number of ellipses per list)"""
    if isinstance(t, list):
        items, ttail = split_list(t)
        out = []
        i = 0
        while i < len(items):
            x = items[i]
            if i + 1 < len(items) and items[i + 1] == ELL:
                vs = [v for v in set(pattern_vars(x, [])) if isinstance(env.get(v), Seq)]
                if not vs:
                    raise Mismatch("no pattern variable under ellipsis")
                n = {len(env[v]) for v in vs}
                if len(n) != 1:
                    raise Mismatch("lengths")
                for j in range(n.pop()):
                    e2 = dict(env)
                    for v in vs:
                        e2[v] = env[v][j]
                    out.append(pinst(x, e2))
                i += 2
            else:
                out.append(pinst(x, env))
                i += 1
        if ttail is not None:
            tl = pinst(ttail, env)
            if isinstance(tl, Imp):
                return Imp(out + list(tl))
            if isinstance(tl, list):
                return out + list(tl)
            return Imp(out + [tl])
        return out
    if isinstance(t, Lit):
        return t
    if t in env and not isinstance(env[t], Seq):
        return env[t]
    return t


def var_depths(p, lits, d=0, acc=None):
    acc = {} if acc is None else acc
    if isinstance(p, list):
        items, ptail = split_list(p)
        for i, q in enumerate(items):
            if q == ELL:
                continue
            dd = d + 1 if (i + 1 < len(items) and items[i + 1] == ELL) else d
            var_depths(q, lits, dd, acc)
        if ptail is not None:
            var_depths(ptail, lits, d, acc)
    elif not isinstance(p, Lit) and p not in lits and p not in ("_", ELL):
        acc[p] = d
    return acc


# ----------------------------------------------------------------------------- generators: matching
VARS = ["a", "b", "c", "d", "e", "f", "g", "h"]
LITS = ["=>", "else", "in"]
DATA = [Lit("0"), Lit("1"), Lit("2"), Lit("42"), Lit("-7"), Lit('"s"'), Lit("#t"), Lit("#f"), "foo", "bar", "=>", "else"]


def gen_pattern(rng, vars_left, depth, lits):
    """a list pattern (python list / Imp) with at most one ellipsis per level"""
    n = rng.choice([0, 1, 1, 2, 2, 3, 4]) if depth > 0 else rng.choice([0, 1, 2, 2, 3, 3, 4])
    items = []
    ell_at = rng.randrange(n) if n and rng.random() < 0.55 else None
    for i in range(n):
        k = rng.random()
        if k < 0.5 and vars_left:
            x = vars_left.pop(0)
        elif k < 0.62 and lits and i != ell_at:
            x = rng.choice(lits)
        elif k < 0.72:
            x = rng.choice([Lit("1"), Lit("2"), Lit('"s"'), Lit("#t")])
        elif k < 0.76 and i != ell_at:
            x = "_"
        elif depth < 2:
            x = gen_pattern(rng, vars_left, depth + 1, lits)
        elif vars_left:
            x = vars_left.pop(0)
        else:
            x = Lit("1")
        items.append(x)
        if i == ell_at:
            items.append(ELL)
    if vars_left and rng.random() < 0.3 and not (items and items[-1] == ELL):
        return Imp(items + [vars_left.pop(0)])
    if vars_left and rng.random() < 0.12 and items and items[-1] == ELL:
        return Imp(items + [vars_left.pop(0)])
    return items


def gen_datum(rng, depth=0):
    k = rng.random()
    if k < 0.7 or depth >= 2:
        return rng.choice(DATA)
    n = rng.choice([0, 1, 2, 3])
    items = [gen_datum(rng, depth + 1) for _ in range(n)]
    if n >= 1 and rng.random() < 0.2:
        return Imp(items + [rng.choice([Lit("9"), "tl"])])
    return items


def form_from_pattern(rng, p, lits):
    """a form that matches p (before mutation)"""
    if isinstance(p, list):
        items, ptail = split_list(p)
        out = []
        i = 0
        while i < len(items):
            x = items[i]
            if i + 1 < len(items) and items[i + 1] == ELL:
                for _ in range(rng.choice([0, 1, 2, 2, 3])):
                    out.append(form_from_pattern(rng, x, lits))
                i += 2
            else:
                out.append(form_from_pattern(rng, x, lits))
                i += 1
        if ptail is not None:
            k = rng.random()
            if k < 0.4:
                return out
            if k < 0.7 and out:
                return Imp(out + [rng.choice([Lit("9"), "tl"])])
            return out + [gen_datum(rng, 1) for _ in range(rng.choice([1, 2]))]
        return out
    if isinstance(p, Lit):
        return p
    if p in lits:
        return p
    return gen_datum(rng, 1)


def mutate(rng, f):
    if not isinstance(f, list) or rng.random() < 0.3:
        return gen_datum(rng)
    items = list(f)
    k = rng.random()
    if k < 0.3 and items:
        del items[rng.randrange(len(items))]
    elif k < 0.6:
        items.insert(rng.randrange(len(items) + 1), gen_datum(rng, 1))
    elif items:
        j = rng.randrange(len(items))
        items[j] = mutate(rng, items[j])
    if isinstance(f, Imp) and len(items) >= 2 and not isinstance(items[-1], list):
        return Imp(items)
    if len(items) >= 2 and rng.random() < 0.15 and not isinstance(items[-1], list):
        return Imp(items)
    return items


def depth_template(v, d):
    t = v
    for _ in range(d):
        t = [t, ELL]
    return t


def gen_match_case(rng, idx):
    lits = rng.sample(LITS, rng.choice([0, 1, 2]))
    vars_left = list(VARS)
    rng.shuffle(vars_left)
    pat = gen_pattern(rng, vars_left, 0, lits)
    form = form_from_pattern(rng, pat, lits)
    mutated = rng.random() < 0.35
    if mutated:
        form = mutate(rng, form)
        if not isinstance(form, list):
            form = [form]
    depths = var_depths(pat, lits)
    has_wild = "_" in show(pat).replace("(", " ").replace(")", " ").split()
    k = rng.random()
    kind = "roundtrip" if (not has_wild and k < 0.45) else ("flat" if k > 0.85 else "vars")
    if kind == "roundtrip":
        tmpl = pat
    elif kind == "flat":
        tmpl = []
        for v, d in sorted(depths.items()):
            tmpl += [v] if d == 0 else [depth_template(v, d - 1), ELL]
    else:
        tmpl = [depth_template(v, d) for v, d in sorted(depths.items())]
    return {"kind": "match", "idx": idx, "lits": lits, "pattern": pat, "template": tmpl, "form": form,
            "tkind": kind, "mutated": mutated}


def match_units(c):
    name = "pm%d" % c["idx"]
    pat = c["pattern"]
    whole = Imp([name] + list(pat)) if isinstance(pat, Imp) else [name] + list(pat)
    form = c["form"]
    use = Imp([name] + list(form)) if isinstance(form, Imp) else [name] + list(form)
    d = "(define-syntax %s (syntax-rules (%s) [%s '%s] [(_ . whatever) 'NOMATCH]))" % (
        name, " ".join(c["lits"]), show(whole), show(c["template"]))
    return [d, show(use)]


def match_expected(c):
    env = {}
    try:
        ok = pmatch(c["pattern"], c["form"], c["lits"], env)
    except Exception as ex:  # generator produced something the reference matcher cannot read
        return "REF-ERROR:%s" % ex
    if not ok:
        return "'\"NOMATCH\""
    try:
        return canon(pinst(c["template"], env))
    except Mismatch as ex:
        return "E:BadSyntax"


def match_model_expr(c):
    pat = c["pattern"]
    items, ptail = split_list(pat)
    ps = parse_pats(items, c["lits"], ptail)
    form = c["form"]
    fitems = list(form)
    return "use_case %s %s (%s) %s %s" % (
        coq_list(c["lits"], coq_str), coq_list(ps, coq_pat), coq_sx(["quote", c["template"]]),
        coq_list(fitems, coq_sx), "true" if isinstance(form, Imp) else "false")


def model_value(text):
    if text == "NOMATCH":
        return "'\"NOMATCH\""
    if text.startswith("E:") or text == "OUT-OF-FUEL":
        return text
    try:
        q = read(text)[0]
        return canon(q[1])
    except Exception:
        return "UNREADABLE:" + text[:100]


def multi_ellipsis(t):
    """template with two ellipses in one list (only the first is expanded: finding c13_multi_ellipsis)"""
    if isinstance(t, list):
        return sum(1 for x in t if x == ELL) >= 2 or any(multi_ellipsis(x) for x in t)
    return False


# ----------------------------------------------------------------------------- hygiene families
POOL = ["t", "tmp", "x", "y", "it", "v", "acc", "loop"]
UNRENAMED_FORMS = ["let*", "letrec", "do", "case-lambda"]
RENAMED_FORMS = ["let", "lambda", "named-let", "define"]
# binders a built-in binding macro introduces itself, unrenamed (swept over 27 user spellings x 8 forms)
IMPLICIT_BINDERS = {"do": ["loop"]}


def fam_nested(rng, i, force=None):
    s1 = rng.choice(POOL)
    s2 = s1 if force is True else rng.choice([p for p in POOL if force is None or p != s1])
    m, m2 = "hn%d" % i, "hn%din" % i
    units = ["(define-syntax %s (syntax-rules () [(_ a b) (let ([%s 2]) (list a b %s))]))" % (m2, s2, s2),
             "(define-syntax %s (syntax-rules () [(_ q) (let ([%s 1]) (%s %s q))]))" % (m, s1, m2, s1),
             "(%s 0)" % m]
    coqp = {"macros": [(m2, [], [(["a", "b"], read("(let ((%s 2)) (list a b %s))" % (s2, s2))[0])]),
                       (m, [], [(["q"], read("(let ((%s 1)) (%s %s q))" % (s1, m2, s1))[0])])],
            "prog": [m, Lit("0")], "globals": ["list"]}
    return {"family": "nested", "outer": s1, "inner": s2, "units": units, "expected": "(I1 I0 I2)", "ndefs": 2,
            "collision": "nested_same_spelling" if s1 == s2 else None, "coq": coqp}


def fam_patvar(rng, i, force=None):
    b = rng.choice(POOL)
    p = b if force is True else rng.choice([q for q in POOL if force is None or q != b])
    m, m2 = "hp%d" % i, "hp%din" % i
    units = ["(define-syntax %s (syntax-rules () [(_ %s r ...) (list %s r ...)]))" % (m2, p, p),
             "(define-syntax %s (syntax-rules () [(_ q) (let ([%s 1]) (%s q %s %s))]))" % (m, b, m2, b, b),
             "(%s 0)" % m]
    return {"family": "patvar", "binder": b, "patvar": p, "units": units, "expected": "(I0 I1 I1)", "ndefs": 2,
            "collision": "nested_same_spelling" if b == p else None, "coq": None}


GLOBAL_FNS = ["list", "vector", "cons", "+"]


def fam_shadow(rng, i, force=None):
    kind = rng.choice(["builtin", "user-same-unit", "user-earlier-unit"])
    how = rng.choice(["let", "lambda", "define"])
    if kind == "builtin":
        g = "list"
        pre = []
        expected = "(I1)"
    else:
        g = "hs%dhelper" % i
        pre = ["(define (%s z) (list 'helper z))" % g]
        expected = "('\"helper\" I1)"
    s = g if force is True else rng.choice([g, "hs%dother" % i] if force is None else ["hs%dother" % i])
    m = "hs%d" % i
    d = "(define-syntax %s (syntax-rules () [(_ q) (%s q)]))" % (m, g)
    if how == "let":
        use = "(let ([%s (lambda args 'shadowed)]) (%s 1))" % (s, m)
        prog = read("(let ((%s (lambda args (quote shadowed)))) (%s 1))" % (s, m))[0]
    elif how == "lambda":
        use = "((lambda (%s) (%s 1)) (lambda args 'shadowed))" % (s, m)
        prog = read("((lambda (%s) (%s 1)) (lambda args (quote shadowed)))" % (s, m))[0]
    else:
        use = "(let () (define (%s . args) 'shadowed) (%s 1))" % (s, m)
        prog = read("(let () (define (%s . args) (quote shadowed)) (%s 1))" % (s, m))[0]
    if kind == "user-same-unit":
        units = [pre[0] + "\n" + d, use]
    else:
        units = pre + [d, use]
    coqp = {"macros": [(m, [], [(["q"], [g, "q"])])], "prog": prog, "globals": [g]}
    return {"family": "shadow", "global": g, "gkind": kind, "local": s, "how": how, "units": units,
            "ndefs": 2 if kind == "user-earlier-unit" else 1,
            "expected": expected, "collision": "use_site_shadowing" if s == g else None, "coq": coqp}


def fam_binder_form(rng, i, force=None):
    form = rng.choice(UNRENAMED_FORMS + RENAMED_FORMS)
    t = rng.choice(POOL)
    u = t if force is True else rng.choice([q for q in POOL if force is None or q != t])
    m = "hb%d" % i
    body = {
        "let": "(let ([%s 1]) (list %s q))",
        "let*": "(let* ([%s 1]) (list %s q))",
        "letrec": "(letrec ([%s 1]) (list %s q))",
        "lambda": "((lambda (%s) (list %s q)) 1)",
        "named-let": "(let hbloop ([%s 1]) (list %s q))",
        "define": "(let () (define %s 1) (list %s q))",
        "do": "(do ((%s 1 (+ %s 1))) (#t (list %s q)))",
        "case-lambda": "((case-lambda [(%s) (list %s q)]) 1)",
    }[form]
    body = body % ((t,) * body.count("%s"))
    # the user's identifier is a global: a local one would be prefixed by ReplaceExpressions' in-scope renaming
    units = ["(define-syntax %s (syntax-rules () [(_ q) %s]))" % (m, body),
             "(define %s 5)" % u, "(%s %s)" % (m, u)]
    coll = "unrenamed_binder" if ((u == t and form in UNRENAMED_FORMS) or u in IMPLICIT_BINDERS.get(form, [])) else None
    return {"family": "binder_form", "form": form, "binder": t, "user": u, "units": units, "expected": "(I1 I5)",
            "ndefs": 1, "collision": coll, "coq": None}


def fam_recursive(rng, i, force=None):
    t = rng.choice(POOL)
    u = rng.choice(POOL)
    which = rng.choice(["or", "and", "let*", "swap", "while", "or-global"])
    m = "hr%d" % i
    if which == "or":
        d = "(define-syntax %s (syntax-rules () [(_) #f] [(_ e) e] [(_ e r ...) (let ([%s e]) (if %s %s (%s r ...)))]))" % (m, t, t, t, m)
        use = "(let ([%s 7]) (list (%s #f %s) (%s #f #f %s) (%s) (%s 3 %s)))" % (u, m, u, m, u, m, m, u)
        exp = "(I7 I7 #f I3)"
    elif which == "or-global":
        d = "(define-syntax %s (syntax-rules () [(_) #f] [(_ e) e] [(_ e r ...) (let ([%s e]) (if %s %s (%s r ...)))]))" % (m, t, t, t, m)
        use = "(begin (define %sg%s 9) (list (%s #f %sg%s)))" % (m, u, m, m, u)
        exp = "(I9)"
    elif which == "and":
        d = "(define-syntax %s (syntax-rules () [(_) #t] [(_ e) e] [(_ e r ...) (let ([%s e]) (if %s (%s r ...) %s))]))" % (m, t, t, m, t)
        use = "(let ([%s 7]) (list (%s 1 %s) (%s #f %s) (%s 1 2 %s)))" % (u, m, u, m, u, m, u)
        exp = "(I7 #f I7)"
    elif which == "let*":
        d = ("(define-syntax %s (syntax-rules () [(_ () body ...) (let () body ...)] "
             "[(_ ([n v] rest ...) body ...) (let ([n v]) (%s (rest ...) body ...))]))" % (m, m))
        use = "(%s ([%s 1] [%s2 (+ %s 1)] [%s (* %s2 3)]) (list %s %s2))" % (m, u, u, u, u, u, u, u)
        exp = "(I6 I2)"
    elif which == "swap":
        d = "(define-syntax %s (syntax-rules () [(_ p q) (let ([%s p]) (set! p q) (set! q %s))]))" % (m, t, t)
        use = "(let ([%s 1] [%sb 2]) (%s %s %sb) (list %s %sb))" % (u, u, m, u, u, u, u)
        exp = "(I2 I1)"
    else:
        d = ("(define-syntax %s (syntax-rules () [(_ c body ...) (let %s () (when c body ... (%s)))]))" % (m, t, t))
        use = "(let ([%s 0] [k 0]) (%s (< k 3) (set! k (+ k 1)) (set! %s (+ %s 10))) (list %s k))" % (u, m, u, u, u)
        exp = "(I30 I3)"
    return {"family": "recursive", "which": which, "binder": t, "user": u, "units": [d, use], "expected": exp,
            "ndefs": 1, "collision": None, "coq": None}


def fam_macro_defining(rng, i, force=None):
    t = rng.choice(POOL)
    u = rng.choice(POOL)
    m = "hd%d" % i
    which = "binder" if force is True else ("const" if force is False else rng.choice(["const", "binder"]))
    if which == "const":
        units = ["(define-syntax %s (syntax-rules () [(_ name val) (define-syntax name (syntax-rules () [(_) val]))]))" % m,
                 "(%s %sgen 5)" % (m, m), "(let ([%s 1]) (list (%sgen) %s))" % (u, m, u)]
        exp = "(I5 I1)"
    else:
        units = ["(define-syntax %s (syntax-rules () [(_ name) (define-syntax name (syntax-rules () [(_ q) (let ([%s 1]) (list %s q))]))]))" % (m, t, t),
                 "(%s %sgen)" % (m, m), "(let ([%s 5]) (%sgen %s))" % (u, m, u)]
        exp = "(I1 I5)"
    return {"family": "macro_defining", "which": which, "binder": t, "user": u, "units": units, "expected": exp,
            "collision": "macro_defining" if which == "binder" else None, "coq": None}


def fam_literal(rng, i, force=None):
    m = "hl%d" % i
    lit = rng.choice(LITS)
    shadow = rng.random() < 0.5
    d = "(define-syntax %s (syntax-rules (%s) [(_ p %s q) '(arrow p q)] [(_ p q r) '(plain p q r)]))" % (m, lit, lit)
    if shadow:
        use = "(let ([%s 5]) (%s 1 %s 2))" % (lit, m, lit)
        exp = "('\"plain\" I1 '\"%s\" I2)" % lit
    else:
        use = "(let ([unrelated 5]) (%s 1 %s 2))" % (m, lit)
        exp = "('\"arrow\" I1 I2)"
    return {"family": "literal", "lit": lit, "shadowed": shadow, "units": [d, use], "expected": exp,
            "ndefs": 1, "collision": None, "coq": None}


def fam_scope_insensitive(rng, i, force=None):
    """the renamer's set of introduced identifiers is flat: a spelling bound somewhere in the template is
    prefixed in every later position, also in quoted data and outside the binder's scope"""
    t = rng.choice(POOL)
    other = t if force is True else rng.choice([q for q in POOL if force is None or q != t])
    m = "hq%d" % i
    which = rng.choice(["quoted", "free-after"])
    if which == "quoted":
        units = ["(define-syntax %s (syntax-rules () [(_ q) (let ([%s q]) (list '%s %s))]))" % (m, t, other, t),
                 "(%s 1)" % m]
        exp = "('\"%s\" I1)" % other
    else:
        units = ["(define %s%s 10)" % (m, other),
                 "(define-syntax %s (syntax-rules () [(_ q) (list (let ([%s%s q]) %s%s) %s%s)]))" % (m, m, t, m, t, m, other),
                 "(%s 1)" % m]
        exp = "(I1 I10)" if other != t else "(I1 I10)"
        if other == t:
            pass
    return {"family": "scope_insensitive", "which": which, "binder": t, "other": other, "units": units,
            "ndefs": 1 if which == "quoted" else 2,
            "expected": exp, "collision": "renamer_scope_insensitive" if other == t else None, "coq": None}



# ----------------------------------------------------------------------------- macros provided by modules
MODULARIZABLE = ["nested", "patvar", "shadow", "binder_form", "recursive", "literal", "scope_insensitive"]


def module_source(def_units):
    """a module whose body is the definition units of a hygiene program; macros are provided for-syntax"""
    text = "\n".join(def_units)
    macros = re.findall(r"\(define-syntax\s+([^\s()]+)", text)
    names = [n for n in re.findall(r"(?m)^\(define\s+\(?([^\s()]+)", text)]   # top-level definitions only
    prov = " ".join("(for-syntax %s)" % m for m in macros) + " " + " ".join(names)
    return "(provide %s)\n%s\n" % (prov.strip(), text)


def modularize(c, root, tag):
    """the same program with its definitions moved into a generated module file that the use site requires"""
    n = c["ndefs"]
    path = os.path.join(root, "c13m_%s.scm" % tag)
    os.makedirs(root, exist_ok=True)
    with open(path, "w") as f:
        f.write(module_source(c["units"][:n]))
    mc = dict(c)
    mc["units"] = ['(require "%s")' % path] + list(c["units"][n:])
    mc["via_module"] = True
    mc["module_source"] = module_source(c["units"][:n])
    mc["coq"] = None
    if c["family"] == "shadow":
        # free identifiers of a module's template are resolved to the module's (mangled) bindings: a use-site
        # binding of the same spelling must not capture them - no known class here, any capture is a violation
        mc["collision"] = None
    return mc


def fam_module_macro_name(rng, i, root, force=None):
    """the template of a module macro uses another macro of the module; the requiring file defines a macro of its
    own - with the same name (planted collision) or with another name"""
    inner = "hz%din" % i
    user = inner if force is True else ("hz%duser" % i if force is False else rng.choice([inner, "hz%duser" % i]))
    m = "hz%d" % i
    defs = ["(define-syntax %s (syntax-rules () [(_ a b) (let ([u 2]) (list a b u))]))" % inner,
            "(define-syntax %s (syntax-rules () [(_ q) (let ([t 1]) (%s t q))]))" % (m, inner)]
    c = {"family": "module_macro_name", "inner": inner, "user_macro": user, "ndefs": 2, "expected": "(I1 I0 I2)",
         "units": defs + ["(define-syntax %s (syntax-rules () [(_ a b) 'user-macro]))" % user, "(%s 0)" % m],
         "collision": "module_macro_name" if user == inner else None, "coq": None}
    return modularize(c, root, "z%d" % i)


def fam_forwarded_binder(rng, i, force=None):
    """Macro A's template hands a binder (a whole binding list, a parameter list, a name) to macro B through a
    PLAIN pattern variable, B puts it into a recognised binding form (let, lambda, named let), and A's template refers
    to the binder: the references must follow the binder through the renaming passes, at top level, inside a function
    body, and when the user has a global of the same spelling."""
    pool = [p_ for p_ in POOL if p_ not in ("x", "v")]          # x: pattern variable, v: parameter of the use site
    s = rng.choice(pool)
    o = rng.choice([p_ for p_ in pool if p_ != s])
    a, b = "hf%d" % i, "hf%dfw" % i
    kind = rng.choice(["let", "lambda", "name", "named-let", "two-bindings"])
    if kind == "let":
        fw, tmpl = "[(_ bindings body) (let bindings body)]", "(%s ((%s x)) (+ %s %s))" % (b, s, s, s)
    elif kind == "lambda":
        fw, tmpl = "[(_ params body arg) ((lambda params body) arg)]", "(%s (%s) (+ %s %s) x)" % (b, s, s, s)
    elif kind == "name":
        fw, tmpl = "[(_ name val body) (let ((name val)) body)]", "(%s %s x (+ %s %s))" % (b, s, s, s)
    elif kind == "named-let":
        fw, tmpl = "[(_ bindings body) (let hfloop bindings body)]", "(%s ((%s x)) (+ %s %s))" % (b, s, s, s)
    else:
        fw, tmpl = "[(_ bindings body) (let bindings body)]", "(%s ((%s x) (%s 1)) (+ %s %s %s -1))" % (b, s, o, s, s, o)
    defs = ["(define-syntax %s (syntax-rules () %s))" % (b, fw),
            "(define-syntax %s (syntax-rules () [(_ x) %s]))" % (a, tmpl)]
    ctx = "user-global" if force is True else ("plain" if force is False else rng.choice(["plain", "function", "user-global", "user-global-function"]))
    pre = ["(define %s 1000) (define %s 500)" % (s, o)] if ctx.startswith("user-global") else []
    if ctx in ("function", "user-global-function", "user-global"):
        use = ["(define (hf%duse v) (%s v))" % (i, a), "(hf%duse 21)" % i]
    else:
        use = ["(%s 21)" % a]
    return {"family": "forwarded_binder", "form": kind, "how": ctx, "units": pre + defs + use, "expected": "I42",
            "ndefs": len(pre) + 2, "collision": None, "coq": None}


FAMILIES = [fam_nested, fam_patvar, fam_shadow, fam_binder_form, fam_recursive, fam_macro_defining, fam_literal,
            fam_scope_insensitive, fam_forwarded_binder]


def hyg_model_exprs(c):
    """Coq expressions: the model's expansion and its capture kinds for the program of family case c"""
    cp = c["coq"]
    ms = []
    for name, lits, cases in cp["macros"]:
        cs = []
        for pats, tmpl in cases:
            cs.append("(%s, %s)" % (coq_list(parse_pats(pats, lits), coq_pat), coq_sx(tmpl)))
        ms.append("mk_macro %s %s [%s]" % (coq_str(name), coq_list(lits, coq_str), "; ".join(cs)))
    macros = "[" + "; ".join(ms) + "]"
    e = "expand_top %s %s (%s)" % (macros, coq_list(cp["globals"], coq_str), coq_sx(cp["prog"]))
    return ("match %s with Ok e => String.append (show e) (String.append \" | \" (join \",\" (map capture_kind (occs [] e)))) "
            "| Err k => String.append \"E:\" k | OutOfFuel => \"OUT-OF-FUEL\" end" % e)


# ----------------------------------------------------------------------------- malformed uses
def gen_malformed(rng, i):
    m = "hm%d" % i
    defs = [
        "(define-syntax %s (syntax-rules () [(_ a b) (list a b)]))",
        "(define-syntax %s (syntax-rules () [(_ (a b ...) ...) '((a ...) ((b ...) ...))]))",
        "(define-syntax %s (syntax-rules () [(_ a ... . r) '((a ...) r)]))",
        "(define-syntax %s (syntax-rules () [(_ a ... b c) '((a ...) b c)]))",
        "(define-syntax %s (syntax-rules (=>) [(_ a => b) (list a b)]))",
        "(define-syntax %s (syntax-rules () [(_ (a ...) (b ...)) '((a b) ...)]))",
        "(define-syntax %s (syntax-rules () [(_ x) (%s x)]))",
        "(define-syntax %s (syntax-rules () [(_ (a . b) ...) '((a ...) (b ...))]))",
        "(define-syntax %s (syntax-rules () [(_ a (b c ...) . d) '(a b (c ...) d)]))",
    ]
    d = rng.choice(defs)
    d = d % ((m,) * d.count("%s"))
    n = rng.choice([0, 0, 1, 2, 3, 5])
    args = [gen_datum(rng) for _ in range(n)]
    use = [m] + args
    if n >= 1 and rng.random() < 0.25 and not isinstance(args[-1], list):
        use = Imp(use)
    if rng.random() < 0.1:
        use = Imp([m, rng.choice([Lit("5"), "x"])])
    return {"family": "malformed", "units": [d, show(use)], "def": d, "use": show(use)}


# ----------------------------------------------------------------------------- corpus (confirmed defects first)
def corpus_cases():
    r = []
    # F7 witnesses (DESIGN.md section 6)
    r.append({"family": "nested", "outer": "t", "inner": "t", "collision": "nested_same_spelling", "coq": None,
              "units": ["(define-syntax cm2 (syntax-rules () [(_ a b) (let ([t 2]) (list a b t))]))",
                        "(define-syntax cm (syntax-rules () [(_ x) (let ([t 1]) (cm2 t x))]))", "(cm 0)"],
              "expected": "(I1 I0 I2)"})
    r.append({"family": "shadow", "global": "list", "gkind": "builtin", "local": "list", "how": "let",
              "collision": "use_site_shadowing", "coq": None,
              "units": ["(define-syntax c-uses-list (syntax-rules () [(_ x) (list x)]))",
                        "(let ([list (lambda args 'shadowed)]) (c-uses-list 1))"], "expected": "(I1)"})
    r.append({"family": "patvar", "binder": "a", "patvar": "a", "collision": "nested_same_spelling", "coq": None,
              "units": ["(define-syntax cp2 (syntax-rules () [(_ a b ...) (list a b ...)]))",
                        "(define-syntax cp (syntax-rules () [(_ x) (let ([a 1]) (cp2 x a a))]))", "(cp 0)"],
              "expected": "(I0 I1 I1)"})
    r.append({"family": "binder_form", "form": "let*", "binder": "t", "user": "t", "collision": "unrenamed_binder", "coq": None,
              "units": ["(define-syntax cb (syntax-rules () [(_ x) (let* ([t 1]) (list t x))]))",
                        "(define t 5)", "(cb t)"], "expected": "(I1 I5)"})
    # repaired: ellipsis followed by a dotted tail (fix: commits in /repo)
    r.append({"family": "regression", "collision": None, "coq": None,
              "units": ["(define-syntax cr (syntax-rules () [(_ a ... . r) '((a ...) r)]))",
                        "(list (cr 1 2 3) (cr 1 2 . 3) (cr . 5) (cr 1) (cr))"],
              "expected": "(((I1 I2 I3) ()) ((I1 I2) I3) (() I5) ((I1) ()) (() ()))"})
    r.append({"family": "regression", "collision": None, "coq": None,
              "units": ["(define-syntax cr3 (syntax-rules () [(_ (a ... . r) ...) '(((a ...) ...) (r ...))]))",
                        "(cr3 (1 2 . 3) (4 5) 6)"],
              "expected": "(((I1 I2) (I4 I5) ()) (I3 () I6))"})
    # repaired: an ellipsis that matched nothing in front of a dotted tail left ( . tail) (debug assertion in
    # tryfrom_visitor.rs when the template is quoted)
    r.append({"family": "regression", "collision": None, "coq": None,
              "units": ["(define-syntax cr4 (syntax-rules () [(_ a ... . r) '(a ... . r)]))",
                        "(list (cr4 . 5) (cr4 1 2 . 5) (cr4) (cr4 1))"],
              "expected": "(I5 (I1 I2 . I5) () (I1))"})
    r.append({"family": "regression", "collision": None, "coq": None,
              "units": ["(define-syntax cr5 (syntax-rules () [(_ ((d ...) ... . f) e ... . a) '(((d ...) ... . f) e ... . a)]))",
                        "(list (cr5 0) (cr5 ((1) . 2) 3 . 4))"],
              "expected": "((I0) (((I1) . I2) I3 . I4))"})
    return r


# ----------------------------------------------------------------------------- run
HEADER = ("From SV Require Import c13.Model_C13.\nFrom Coq Require Import List String.\nImport ListNotations.\n"
          "Open Scope string_scope.\nOpen Scope list_scope.")


def strip(c):
    return {k: (show(v) if k in ("pattern", "template", "form") else v) for k, v in c.items() if k != "coq"}


def bump(hist, key):
    hist[key] = hist.get(key, 0) + 1


def run(ck):
    ck.cov["trusted_base"] = [
        "Coq 8.16.1 kernel, coqc; vm_compute for model evaluation",
        "hand-written model coq/c13/Model_C13.v of expander.rs (matching, collect_bindings), replace_idents.rs "
        "(ReplaceExpressions), rename_idents.rs, expand_visitor.rs (scope tracking)",
        "correspondence harness (harness/src/bin/evalsrv.rs, canonical value rendering)",
        "renderers in checks/c13.py (S-expression -> Steel source / Coq term, pattern parser mirroring parse_from_list)",
        "oracles: independent R7RS matcher/instantiator in checks/c13.py; expected values of the hygiene families "
        "and of the module-graph family fixed by construction (definition-site meaning)",
        "translator mg_enumerate in checks/c13.py (regular expressions over modules.rs, program.rs, stdlib.scm) -> "
        "coq/gen/Gen_C13mod.v",
    ]
    ck.assumptions = [
        "vector / bytevector patterns, quoted patterns, keywords, datum->syntax, syntax-const-if and #%syntax-span are outside the model",
        "the Coq model of expansion covers macros used in the source that defines them; for macros provided by modules the "
        "model (c13/ModelMod_C13.v) covers only which names are qualified inside templates (provide / require forms, with "
        "the shapes the code matches generated from modules.rs); that a qualified name then resolves to the module's "
        "binding is covered by the engine-vs-construction oracle of the module-graph family only",
        "the reader rejects identifiers starting with ## (checked on the engine in every run)",
    ]
    # generated facts about the module system (forms of provide / require, shapes the in-scope collection matches)
    mg_facts, mg_tie = None, None
    try:
        mg_facts = mg_enumerate()
        ck.translate("Gen_C13mod", mg_gen_text(mg_facts))
    except TieBroken as e:
        mg_tie = str(e)
    proved = ck.proof_stage(["c13"], ["c13/Properties_C13"], "c13/Pins_C13.v")
    th1, ax1, pf1 = list(ck.cov["theorems"]), dict(ck.cov["axioms_by_theorem"]), list(ck.proof_failures)
    proved_mod = ck.proof_stage(["c13"], ["c13/PropertiesMod_C13"], "c13/Pins_C13mod.v")
    ck.cov["theorems"] = th1 + [t for t in ck.cov["theorems"] if t not in th1]
    ck.cov["axioms_by_theorem"] = dict(ax1, **ck.cov["axioms_by_theorem"])
    ck.proof_failures = pf1 + [x for x in ck.proof_failures if x not in pf1]
    ck.cov["checker_cmd"] = ("coq_makefile -f _CoqProject -o Makefile && make -j%d c13/Properties_C13.vo c13/PropertiesMod_C13.vo ; "
                             "coqc Pins_C13.v ; coqc Pins_C13mod.v" % common.NPROC)
    if mg_tie:
        proved_mod = False
        ck.proof_failures.append("generated facts of the module system (Gen_C13mod) could not be extracted: " + mg_tie)
    ck.harness_build(["evalsrv"])
    quick = ck.tier == "quick"
    rng = ck.rng

    # ---------------- (M) matching correspondence
    nm = 700 if quick else 12000
    mcases = [gen_match_case(rng, i) for i in range(nm)]
    # ---------------- (H) hygiene families: deliberate collisions, deliberate non-collisions, random
    hcases = corpus_cases()
    idx = 0
    reps = 3 if quick else 40
    for fam in FAMILIES:
        for force in [True] * reps + [False] * reps + [None] * reps:
            hcases.append(fam(rng, idx, force))
            idx += 1
    # ---------------- (H') the same families with the macros provided by generated module files
    import shutil
    mroot = os.path.join(ck.work, "mods")
    shutil.rmtree(mroot, ignore_errors=True)
    mreps = 2 if quick else 12
    byname = {f.__name__[4:]: f for f in FAMILIES}
    for name in MODULARIZABLE:
        for force in [True] * mreps + [False] * mreps + [None] * mreps:
            hcases.append(modularize(byname[name](rng, idx, force), mroot, "h%d" % idx))
            idx += 1
    for force in [True] * (2 * mreps) + [False] * (2 * mreps):
        hcases.append(fam_module_macro_name(rng, idx, mroot, force))
        idx += 1
    # ---------------- predicates must not swallow cases of other families
    selftest_predicates(ck, hcases + mg_selftest_descs())
    # ---------------- (E) malformed
    ecases = [gen_malformed(rng, i) for i in range(250 if quick else 5000)]
    # the reader must reject ##-identifiers (condition (iii) of the known class is enforced by the lexer)
    probe = [["(define ##c13probe 1)"], ["(list '##c13x)"]]

    # matching cases share one engine per worker (unique macro names); hygiene programs and malformed uses get a
    # fresh engine each, so that an earlier failed unit cannot influence them
    impl = ck.eval_cases([match_units(c) for c in mcases], batch=120, timeout_per_batch=240)
    impl += ck.eval_cases([c["units"] for c in hcases] + [c["units"] for c in ecases] + probe, batch=40,
                          timeout_per_batch=240, fresh=True)
    exprs = [match_model_expr(c) for c in mcases]
    hm = [c for c in hcases if c.get("coq")]
    exprs += [hyg_model_exprs(c) for c in hm]
    model = ck.coq_eval(HEADER, exprs, shard=120)

    seen = set()
    hist = {}
    # ---- M
    for i, c in enumerate(mcases):
        got = impl_value(impl[i][-1] if impl[i] else None)
        if impl[i] and len(impl[i]) == 2 and "err" in impl[i][0]:
            got = "DEF-" + impl_value(impl[i][0])
        want = match_expected(c)
        mod = model_value(model[i])
        ck.cov["evaluations"] += 1
        desc = dict(strip(c), source=match_units(c), impl=got, model=mod, expected=want,
                    multi_ellipsis_template=multi_ellipsis(c["template"]))
        key = ("match", re.sub(r"[a-h]\b", "v", show(c["pattern"])), got[:2] == "'\"" and "NOMATCH" in got, c["tkind"])
        if key not in seen:
            seen.add(key)
        bump(hist, "match:" + ("nomatch" if "NOMATCH" in got else got.split(":")[0] if got.startswith(("E:", "DEF", "PANIC", "CRASH", "HANG")) else "matched"))
        if i % 131 == 0:
            ck.sample(desc)
        bad_obs = got.startswith(("PANIC", "CRASH", "HANG", "MISSING"))
        if got.startswith("DEF-E:"):
            # the engine rejected the definition (e.g. a pattern shape it does not support): a reported
            # syntax error, allowed by the property; the model has no definition-time checks
            bump(hist, "match:def-rejected")
            continue
        if bad_obs or (got != want and not (got.startswith("E:") and want.startswith("E:"))):
            ck.failing_input("pattern %s, use %s: engine gives %s, syntax-rules semantics gives %s" % (
                show(c["pattern"]), show(c["form"]), got, want), desc, tag="match")
        if mod != got and not (mod.startswith("E:") and got.startswith("E:")) and not bad_obs:
            ck.violation("model/engine correspondence broken (matching): pattern %s template %s use %s: model %s, engine %s" % (
                show(c["pattern"]), show(c["template"]), show(c["form"]), mod, got),
                {"case": desc, "correspondence": "c13.Model_C13.use_case vs expander.rs/replace_idents.rs"},
                no_input=True, tag="corr")
    # ---- H
    off = len(mcases)
    mi = len(mcases)
    for j, c in enumerate(hcases):
        res = impl[off + j]
        got = impl_value(res[-1] if res else None)
        ck.cov["evaluations"] += 1
        desc = dict(strip(c), impl=got)
        key = ("hyg", c["family"], c.get("collision"), c.get("form"), c.get("which"), c.get("how"), c.get("gkind"),
               bool(c.get("via_module")))
        seen.add(key)
        bump(hist, "hyg:%s%s:%s" % ("module:" if c.get("via_module") else "", c["family"],
                                    "known-class" if c.get("collision") else "clean"))
        if j % 17 == 0:
            ck.sample(desc)
        if c.get("coq"):
            mtxt = model[mi]
            mi += 1
            desc["model"] = mtxt
            kinds = set(k for k in mtxt.split(" | ")[-1].split(",") if k and k != "none") if " | " in mtxt else {"?"}
            want_kinds = {c["collision"]} if c.get("collision") else set()
            # `##x` left dangling by the in-scope renaming is the same class seen from the engine's side
            if kinds != want_kinds and not (c["family"] == "shadow" and c.get("collision") and "##" in mtxt):
                ck.violation("KnownClass of the Coq model and of the generator disagree on %s: model %s, generator %s" % (
                    c["units"], sorted(kinds), sorted(want_kinds)),
                    {"case": desc, "correspondence": "c13.Model_C13.capture_kind vs checks/c13.py collision"},
                    no_input=True, tag="class")
        if got != c["expected"]:
            ck.failing_input("%s: engine gives %s, hygienic expansion gives %s" % (c["units"], got, c["expected"]),
                             desc, tag="hyg")
    # ---- E
    off += len(hcases)
    for j, c in enumerate(ecases):
        res = impl[off + j]
        got = impl_value(res[-1] if res else None)
        ck.cov["evaluations"] += 1
        bump(hist, "malformed:" + (got if got.startswith("E:") else got.split(":")[0] if got.startswith(("PANIC", "CRASH", "HANG", "MISSING")) else "value"))
        if got.startswith(("PANIC", "CRASH", "HANG", "MISSING")):
            ck.failing_input("expansion of %s with %s does not return a value or an error: %s" % (c["use"], c["def"], got),
                             dict(c, impl=got), tag="malformed")
    off += len(ecases)
    for j in range(len(probe)):
        got = impl_value(impl[off + j][-1] if impl[off + j] else None)
        if not got.startswith("E:"):
            ck.violation("the reader accepted an identifier starting with ##: %s -> %s (condition of the known class no longer "
                         "enforced by the lexer)" % (probe[j], got), {"case": {"units": probe[j], "impl": got}}, tag="reader")

    ck.cov["outcome_histogram"] = hist
    # ---- module graphs (macros imported from modules).  When the generated obligation about the in-scope collection
    # no longer checks, the whole matrix is searched for the failing input.
    _, mg_seen = mg_run(ck, mg_facts, escalate=not proved_mod)
    ck.cov["distinct_nontrivial"] = len([k for k in seen if k[0] == "hyg" or not k[2]]) + len(mg_seen)
    ck.cov["rule"] = ("matching: distinct (pattern shape with variables anonymised, template kind) among cases whose use "
                      "matched; hygiene: distinct (family, collision class, binding form / variant); module graphs: "
                      "distinct (level, require form A->B, require form B->C, provide form, kind of template identifier, "
                      "use context, unit layout, JIT, provide form of the macro); non-trivial = matched use, hygiene "
                      "program or macro use through a module graph")
    if not (proved and proved_mod):
        ck.notes.append("proof obligations that no longer check: " + " | ".join(x[:600] for x in ck.proof_failures))
        if not ck.violations:
            ck.unproved()


def replay(ck, path):
    obj = json.load(open(path))
    case = obj.get("case")
    if not case or "units" not in case and "source" not in case:
        print(json.dumps(obj, indent=1))
        return
    ck.harness_build(["evalsrv"])
    if case.get("family") == "module_graph":
        # the module files of the case are written under the work directory, then the units run on one engine
        import shutil
        root = os.path.join(ck.work, "modgraph", "replay")
        shutil.rmtree(root, ignore_errors=True)
        units = mg_materialize(case, root, "r")
        res = ck.eval_cases([units], fresh=True, env=None if case.get("jit", True) else {"STEEL_JIT": "false"})[0]
        res = [r for r in (res or []) if "out" not in r]
        got = impl_value(res[-1] if res else None)
        parts = split_canon_list(got)
        if parts is not None and len(parts) == 1 and case.get("layout") == "same-unit" and got != case.get("expected"):
            got = parts[0]
        for name in sorted(case["files"]):
            print("---- %s\n%s" % (name, case["files"][name]))
        print("units:", units)
        print("engine:", got, " expected (definition-site meaning):", case.get("expected"))
        if got != case.get("expected"):
            ck.failing_input("replay: engine gives %s, expected %s" % (got, case.get("expected")), case, tag="replay")
        return
    units = case.get("units") or case.get("source")
    res = ck.eval_cases([units])[0]
    got = impl_value(res[-1] if res else None)
    print("units:", units)
    print("engine:", got, " expected:", case.get("expected"))
    if got != case.get("expected"):
        ck.failing_input("replay: engine gives %s, expected %s" % (got, case.get("expected")), case, tag="replay")


# ----------------------------------------------------------------------------- known-finding classes
# Decided from the generated case description only (never from the engine's answer).
def c13_nested_same_spelling(case, params):
    """a template-introduced binder of one macro meets, in one expansion, another macro definition that uses the
    same spelling as an introduced binder (family nested) or as a pattern variable (family patvar)"""
    if case.get("family") == "nested":
        return case.get("outer") is not None and case.get("outer") == case.get("inner")
    if case.get("family") == "patvar":
        return case.get("binder") is not None and case.get("binder") == case.get("patvar")
    return False


def c13_use_site_shadowing(case, params):
    """a local binding at the use site has the spelling of a free identifier of the template of a macro defined in
    the same file (macros provided by modules resolve their free identifiers to the module: not in the class)"""
    return (case.get("family") == "shadow" and not case.get("via_module")
            and case.get("local") is not None and case.get("local") == case.get("global"))


def c13_unrenamed_binder(case, params):
    """the template binds an identifier through a form the renamer does not know (let*, letrec, do, case-lambda)
    and the use passes an identifier of the same spelling"""
    if case.get("family") != "binder_form":
        return False
    if case.get("user") in params.get("implicit_binders", IMPLICIT_BINDERS).get(case.get("form"), []):
        return True
    return case.get("form") in params.get("forms", UNRENAMED_FORMS) and case.get("binder") == case.get("user")


def c13_renamer_scope_insensitive(case, params):
    """the template uses the spelling of one of its introduced binders outside that binder's scope (quoted datum or
    free reference)"""
    return case.get("family") == "scope_insensitive" and case.get("binder") == case.get("other")


def c13_macro_defining(case, params):
    """a macro whose template is a define-syntax of a macro that has pattern variables or introduces binders"""
    return case.get("family") == "macro_defining" and case.get("which") == "binder"


def c13_module_macro_name(case, params):
    """the template of a macro provided by a module uses another macro of that module and the requiring file
    defines a macro with the same name"""
    if case.get("family") == "module_graph":
        # the same lookup, seen from the module-graph family: the requiring file binds the spelling of that macro
        # as a variable after the require (a later top-level definition, or a local binding around the use)
        return (case.get("ident_kind") in params.get("macro_kinds", ["private-macro", "exported-macro"])
                and case.get("context") in params.get("contexts", list(MG_BINDING_CONTEXTS)))
    return (case.get("family") == "module_macro_name" and case.get("inner") is not None
            and case.get("inner") == case.get("user_macro"))


def c13_module_imported_macro(case, params):
    """the template of a macro provided by module A uses a macro that A itself imported from another module"""
    return case.get("family") == "module_graph" and case.get("ident_kind") == "imported-macro"


def c13_multi_ellipsis(case, params):
    """a template list with two or more ellipses at the same level (only the first one is expanded)"""
    return case.get("kind") == "match" and case.get("multi_ellipsis_template") is True


# home families of every predicate: a predicate may only answer True inside them
PRED_HOME = {
    "c13_nested_same_spelling": {"nested", "patvar"},
    "c13_use_site_shadowing": {"shadow"},
    "c13_unrenamed_binder": {"binder_form"},
    "c13_renamer_scope_insensitive": {"scope_insensitive"},
    "c13_macro_defining": {"macro_defining"},
    "c13_module_macro_name": {"module_macro_name", "module_graph"},
    "c13_module_imported_macro": {"module_graph"},
    "c13_multi_ellipsis": {"match"},
}


def selftest_predicates(ck, hcases):
    """Every known-class predicate is fed every generated hygiene case (all families, planted collisions and clean
    variants, in-file and via module) plus one matching case: it must answer False outside its home families and
    False on the clean variants of its own family, and True on the collision it deliberately plants."""
    import sys
    me = sys.modules[__name__]
    rng = __import__("random").Random(7)
    probe = [dict(strip(c)) for c in hcases]
    probe.append(dict(strip(gen_match_case(rng, 0)), multi_ellipsis_template=True))
    probe.append(dict(strip(gen_match_case(rng, 1)), multi_ellipsis_template=False))
    probe.append({"family": "malformed", "units": ["x"], "def": "", "use": ""})
    findings = {f["class"]["predicate"]: f["class"].get("params", {}) for f in ck.findings}
    n = 0
    bad = []
    fams_seen = set()
    for pname, home in sorted(PRED_HOME.items()):
        pred = getattr(me, pname)
        params = findings.get(pname, {})
        hit_home = False
        for c in probe:
            fam = c.get("family") or c.get("kind")
            fams_seen.add(fam)
            ans = bool(pred(c, params))
            n += 1
            if fam not in home and ans:
                bad.append("%s answers True on a case of family %s" % (pname, fam))
            if fam in home and fam != "match":
                planted = c.get("collision") is not None
                if ans and not planted:
                    bad.append("%s answers True on a clean case of its family %s: %s" % (pname, fam, c.get("units")))
                if ans:
                    hit_home = True
            if fam == "match" and ans:
                hit_home = True
        if not hit_home:
            bad.append("%s never answers True on the collisions planted for it" % pname)
    missing = set(findings) - set(PRED_HOME)
    if missing:
        bad.append("predicates listed in known_findings.d/C13.json without a home family: %s" % sorted(missing))
    ck.cov["predicate_selftest"] = {"assertions": n, "families": sorted(f for f in fams_seen if f), "failures": len(bad)}
    for b in bad[:5]:
        ck.violation("known-class predicate self-test failed: " + b, {"selftest": b}, no_input=True, tag="selftest")


# ============================================================================= module graphs (family "module_graph")
# Engine-vs-construction oracle for macros imported from modules.  Two- and three-level module graphs are written to
# disk; B (and C) provide procedures / values through every provide-spec form the module system accepts, A requires B
# through every require-spec form and exports syntax-rules macros whose templates mention, as free identifiers,
# (a) imports from B, (b) helpers of A, (c) other macros of A, (d) a builtin, (e) imported values.  The user program
# requires only A and uses the macros in contexts that bind the same spellings.  The expected value is the
# definition-site meaning, fixed by construction.  The forms are enumerated from modules.rs on every run
# (mg_enumerate); the generated facts go to coq/gen/Gen_C13mod.v and carry the obligation "every provide form the
# provide expansion accepts is handled by the collection of in-scope names" (coq/c13/PropertiesMod_C13.v).
MG_MODULES = "crates/steel-core/src/compiler/modules.rs"
MG_PROGRAM = "crates/steel-core/src/compiler/program.rs"
MG_STDLIB = "crates/steel-core/src/scheme/stdlib.scm"
MG_ARG = "7"


def strip_rust_comments(src):
    out = []
    i, n = 0, len(src)
    while i < n:
        c = src[i]
        if c == '"':
            j = i + 1
            while j < n and src[j] != '"':
                j += 2 if src[j] == "\\" else 1
            out.append(src[i:j + 1])
            i = j + 1
        elif src.startswith("//", i):
            j = src.find("\n", i)
            i = n if j < 0 else j
        elif src.startswith("/*", i):
            j = src.find("*/", i + 2)
            i = n if j < 0 else j + 2
        else:
            out.append(c)
            i += 1
    return "".join(out)


def rust_block(src, start):
    """text of the brace block that opens at the first `{` at or after `start` (string literals skipped)"""
    i = src.find("{", start)
    if i < 0:
        raise TieBroken("no block after offset %d" % start)
    depth, j, n = 0, i, len(src)
    while j < n:
        c = src[j]
        if c == '"':
            j += 1
            while j < n and src[j] != '"':
                j += 2 if src[j] == "\\" else 1
        elif c == "'" and j + 2 < n and (src[j + 2] == "'" or (src[j + 1] == "\\" and src[j + 3:j + 4] == "'")):
            j += 3 if src[j + 2] == "'" else 4      # char literal such as '{' or '\n'
            continue
        elif c == "{":
            depth += 1
        elif c == "}":
            depth -= 1
            if depth == 0:
                return src[i:j + 1]
        j += 1
    raise TieBroken("unbalanced block at offset %d" % start)


def rust_fn(src, name):
    m = re.search(r"\bfn\s+%s\s*(<[^>]*>)?\s*\(" % re.escape(name), src)
    if not m:
        raise TieBroken("fn %s not found in %s" % (name, MG_MODULES))
    return rust_block(src, m.end())


# what the generator can produce, keyed by the head the code matches on
MG_PROVIDE_GEN = {"<identifier>", "%require-ident-spec", "for-syntax"}
MG_PROVIDE_SURFACE_GEN = {"contract/out"}
MG_REQUIRE_GEN = {"<string>", "only-in", "prefix-in", "for-syntax"}
MG_ONLY_IN_ITEM_GEN = {"<identifier>", "<rename-pair>"}


def mg_enumerate():
    """provide / require spec forms read off the match arms of modules.rs, and which of them the collection of
    in-scope names (find_in_scope_macros and RequireObject::as_identifiers) handles"""
    mod = strip_rust_comments(common.repo_file(MG_MODULES))
    prog = common.repo_file(MG_PROGRAM)
    syms = dict(re.findall(r"\b([A-Z][A-Z0-9_]*)\s*=>\s*\"([^\"]+)\"", prog))

    def heads(body, what):
        hs = []
        for nm in re.findall(r"\bx\s+if\s+\*?x\s*==\s*\*([A-Z_0-9]+)", body):
            if nm not in syms:
                raise TieBroken("symbol %s matched in %s is not in the table of program.rs" % (nm, what))
            if syms[nm] not in hs:
                hs.append(syms[nm])
        return hs

    f = {}
    # --- provide: forms that survive filter_out_for_syntax_provides / are turned into definitions
    fo = rust_fn(mod, "filter_out_for_syntax_provides")
    syntax_heads, passed = [], []
    for m in re.finditer(r"\bx\s+if\s+x\s*==\s*\*([A-Z_0-9]+)\s*=>", fo):
        arm = rust_block(fo, m.end())
        nm = syms.get(m.group(1))
        if nm is None:
            raise TieBroken("symbol %s of filter_out_for_syntax_provides not in program.rs" % m.group(1))
        (syntax_heads if "provides_for_syntax.push" in arm else passed).append(nm)
    if not syntax_heads:
        raise TieBroken("filter_out_for_syntax_provides: no arm collects provides_for_syntax")
    f["provide_syntax_heads"] = syntax_heads
    ttl = rust_fn(mod, "to_top_level_module")
    cm = rust_fn(mod, "compile_main")
    f["provide_value_heads"] = heads(ttl, "to_top_level_module")
    f["provide_value_heads_main"] = [h for h in heads(cm, "compile_main")]
    f["provide_atom_accepted"] = "ExprKind::Atom(_) =>" in ttl
    f["provide_atom_accepted_main"] = "ExprKind::Atom(_) =>" in cm
    if not f["provide_value_heads"] and not f["provide_atom_accepted"]:
        raise TieBroken("to_top_level_module: provide arms not found")
    # surface macros of the prelude that expand into an accepted list head
    std = common.repo_file(MG_STDLIB)
    surf = []
    for h in f["provide_value_heads"]:
        for nm in re.findall(r"\[\(([^\s()\[\]]+)[^\[\]]*?\)\s*\(%s\s" % re.escape(h), std):
            if nm not in surf:
                surf.append(nm)
    f["provide_surface_macros"] = surf
    # --- the collection of in-scope names: find_in_scope_macros, loop over the provides of whole-module requires
    fis = rust_fn(mod, "find_in_scope_macros")
    m = re.search(r"for\s+importing_module\s+in\s+modules_to_check\s*", fis)
    if not m:
        raise TieBroken("find_in_scope_macros: loop over modules_to_check not found")
    loop = rust_block(fis, m.end())
    if not re.search(r"globals\s*\.\s*(insert|extend)\s*\(", loop):
        raise TieBroken("find_in_scope_macros: the loop over modules_to_check no longer adds to `globals`")
    f["in_scope_collects_atom"] = bool(re.search(r"\.\s*atom_identifier\s*\(\s*\)", loop))
    f["in_scope_collects_list_second"] = bool(re.search(r"\.\s*second_ident\s*\(\s*\)", loop))
    # ... and the same names under the prefix of a whole-module (prefix-in pfx "m") require
    m = re.search(r"for\s+\(\s*prefixed_module\s*,\s*prefix\s*\)\s+in\s+prefixed_modules\s*", fis)
    f["in_scope_prefixed_collects_atom"] = f["in_scope_prefixed_collects_list_second"] = False
    if m:
        ploop = rust_block(fis, m.end())
        if re.search(r"globals\s*\.\s*(insert|extend)\s*\(\s*\(?\s*prefix\b", ploop):
            f["in_scope_prefixed_collects_atom"] = bool(re.search(r"\.\s*atom_identifier\s*\(\s*\)", ploop))
            f["in_scope_prefixed_collects_list_second"] = bool(re.search(r"\.\s*second_ident\s*\(\s*\)", ploop))
    # to_top_level_module, spec arm: the name registered as a global of the requiring module is the one it defines
    m = re.search(r"x\s+if\s+x\s*==\s*\*REQUIRE_IDENT_SPEC\s*=>", ttl)
    if not m:
        raise TieBroken("to_top_level_module: %require-ident-spec arm not found")
    arm = rust_block(ttl, m.end())
    md = re.search(r"Define::new\s*\(\s*([a-z_]+)\s*,", arm)
    mg = re.search(r"globals\s*\.\s*insert\s*\(\s*\*\s*([a-z_]+)\s*\.", arm)
    if not md or not mg:
        raise TieBroken("to_top_level_module: definition / registration of a spec export not found")
    f["spec_registers_bound_name"] = md.group(1) == mg.group(1)
    # same shape in compile_module (macros of the requiring module shadowed by imported names)
    cmod = rust_fn(mod, "compile_module")
    m = re.search(r"if\s+require_object\s*\.\s*idents_to_import\s*\.\s*is_empty\s*\(\s*\)\s*", cmod)
    if m:
        blk = rust_block(cmod, m.end())
        f["shadow_collects_atom"] = bool(re.search(r"\.\s*atom_identifier\s*\(\s*\)", blk)) and "macro_map.remove" in blk
        f["shadow_collects_list_second"] = bool(re.search(r"\.\s*second_ident\s*\(\s*\)", blk)) and "macro_map.remove" in blk
    else:
        raise TieBroken("compile_module: removal of shadowed macros not found")
    # --- require
    pr = rust_fn(mod, "parse_require_object_inner")
    rh = []
    for nm in re.findall(r"Some\s*\(\s*x\s*\)\s+if\s+\*x\s*==\s*\*([A-Z_0-9]+)", pr):
        if nm not in syms:
            raise TieBroken("symbol %s of parse_require_object_inner not in program.rs" % nm)
        rh.append(syms[nm])
    if "TokenType::StringLiteral" not in pr or not rh:
        raise TieBroken("parse_require_object_inner: arms not found")
    f["require_heads"] = ["<string>"] + rh
    m = re.search(r"Some\s*\(\s*x\s*\)\s+if\s+\*x\s*==\s*\*ONLY_IN\s*=>", pr)
    items = []
    if m:
        blk = rust_block(pr, m.end())
        m2 = re.search(r"match\s+remaining\s*", blk)
        if m2:
            arms = rust_block(blk, m2.end())
            if "ExprKind::Atom(_)" in arms:
                items.append("<identifier>")
            if "ExprKind::List(" in arms and "MaybeRenamed::Renamed" in arms:
                items.append("<rename-pair>")
    f["only_in_items"] = items
    # RequireObject::as_identifiers: which explicitly imported names it yields
    asid = rust_fn(mod, "as_identifiers")
    f["req_ids"] = mg_as_identifiers_shape(asid)
    return f


def mg_as_identifiers_shape(body):
    """which of the names bound by an explicit import list RequireObject::as_identifiers yields:
    normal: the arm for `name` binds the identifier; renamed: the arm for `(from to)` binds the NEW name;
    prefix_optional: some `out.push` pushes a name that does not involve the prefix (requires without a prefix)"""
    b = re.sub(r"\s+", " ", body)
    pushes = []
    for m in re.finditer(r"out\s*\.\s*push\s*\(", b):
        depth, j = 1, m.end()
        while j < len(b) and depth:
            depth += {"(": 1, ")": -1}.get(b[j], 0)
            j += 1
        pushes.append(b[m.end():j - 1])
    if not pushes:
        return {"normal": False, "renamed": False, "prefix_optional": False}
    normal = bool(re.search(r"MaybeRenamed::Normal\(\s*[a-z]\w*\s*\)", b))
    renamed = bool(re.search(r"MaybeRenamed::Renamed\(\s*_\w*\s*,\s*[a-z]\w*\s*\)", b))
    prefix_optional = any("prefix" not in a for a in pushes)
    return {"normal": normal, "renamed": renamed, "prefix_optional": prefix_optional}


def mg_gen_text(f):
    def cl(xs):
        return "[" + "; ".join(coq_str(x) for x in xs) + "]"

    def cb(x):
        return "true" if x else "false"
    return "\n".join([
        "(* GENERATED by checks/c13.py (mg_enumerate) on every run from %s, program.rs and scheme/stdlib.scm — do not edit. *)" % MG_MODULES,
        "From Coq Require Import String List.", "Import ListNotations.", "Open Scope string_scope.",
        "(* filter_out_for_syntax_provides: list heads collected as exported macros *)",
        "Definition provide_syntax_heads : list string := %s." % cl(f["provide_syntax_heads"]),
        "(* to_top_level_module / compile_main: list heads of provide specs that are turned into a definition in the requiring module; any other head stops with TypeMismatch *)",
        "Definition provide_value_heads : list string := %s." % cl(f["provide_value_heads"]),
        "Definition provide_value_heads_main : list string := %s." % cl(f["provide_value_heads_main"]),
        "Definition provide_atom_accepted : bool := %s." % cb(f["provide_atom_accepted"]),
        "Definition provide_atom_accepted_main : bool := %s." % cb(f["provide_atom_accepted_main"]),
        "(* prelude macros (scheme/stdlib.scm) that expand into an accepted list head *)",
        "Definition provide_surface_macros : list string := %s." % cl(f["provide_surface_macros"]),
        "(* find_in_scope_macros, `for importing_module in modules_to_check`: shapes of provide specs whose name is added to the in-scope names *)",
        "Definition in_scope_collects_atom : bool := %s." % cb(f["in_scope_collects_atom"]),
        "Definition in_scope_collects_list_second : bool := %s." % cb(f["in_scope_collects_list_second"]),
        "(* find_in_scope_macros, `for (prefixed_module, prefix) in prefixed_modules`: the same under the prefix of a whole-module prefix-in require (false: no such collection) *)",
        "Definition in_scope_prefixed_collects_atom : bool := %s." % cb(f["in_scope_prefixed_collects_atom"]),
        "Definition in_scope_prefixed_collects_list_second : bool := %s." % cb(f["in_scope_prefixed_collects_list_second"]),
        "(* to_top_level_module, %require-ident-spec arm: `globals.insert` registers the identifier that `Define::new` defines *)",
        "Definition spec_registers_bound_name : bool := %s." % cb(f["spec_registers_bound_name"]),
        "(* compile_module: the same two shapes when macros of the requiring module are shadowed by imported names *)",
        "Definition shadow_collects_atom : bool := %s." % cb(f["shadow_collects_atom"]),
        "Definition shadow_collects_list_second : bool := %s." % cb(f["shadow_collects_list_second"]),
        "(* parse_require_object_inner *)",
        "Definition require_heads : list string := %s." % cl(f["require_heads"]),
        "Definition only_in_items : list string := %s." % cl(f["only_in_items"]),
        "(* RequireObject::as_identifiers: explicitly imported names it yields *)",
        "Definition req_ids_normal : bool := %s." % cb(f["req_ids"]["normal"]),
        "Definition req_ids_renamed : bool := %s." % cb(f["req_ids"]["renamed"]),
        "Definition req_ids_without_prefix : bool := %s." % cb(f["req_ids"]["prefix_optional"]),
        ""])


def mg_uncovered(f):
    unc = []
    unc += ["provide:" + h for h in f["provide_value_heads"] + f["provide_syntax_heads"] if h not in MG_PROVIDE_GEN]
    unc += ["provide-surface:" + h for h in f["provide_surface_macros"] if h not in MG_PROVIDE_SURFACE_GEN]
    unc += ["require:" + h for h in f["require_heads"] if h not in MG_REQUIRE_GEN]
    unc += ["only-in-item:" + h for h in f["only_in_items"] if h not in MG_ONLY_IN_ITEM_GEN]
    return unc


# ----------------------------------------------------------------------------- graph generator
MG_PROVIDE_FORMS = ["atom", "contract/out", "ident-spec", "ident-spec-rename", "local-macro-spec", "atom-2nd-provide",
                    "atom-begin-provide"]
MG_REQUIRE_FORMS = ["plain", "for-syntax", "only-in", "only-in-rename", "prefix-in", "prefix-only", "only-prefix",
                    "prefix-only-rename"]
MG_CONTEXTS = ["plain", "earlier-global", "later-global", "local-let", "local-lambda", "local-define", "also-lib",
               "lib-first", "indirect-first"]
MG_LAYOUTS = ["split", "same-unit"]


def mg_items(tag, nvals):
    """exports of a library module: one procedure per provide form, values through the forms that accept them"""
    items = []
    for pf in MG_PROVIDE_FORMS:
        ext = "mg%s-p-%s" % (tag, re.sub(r"[^a-z0-9]+", "-", pf))
        items.append({"kind": "proc", "pf": pf, "ext": ext,
                      "int": ext + "-internal" if pf == "ident-spec-rename" else ext,
                      "meaning": "('\"%s\" I%s)" % (ext.upper(), MG_ARG)})
    for k, pf in enumerate(["atom", "ident-spec", "ident-spec-rename"]):
        ext = "mg%s-v-%s" % (tag, re.sub(r"[^a-z0-9]+", "-", pf))
        items.append({"kind": "value", "pf": pf, "ext": ext,
                      "int": ext + "-internal" if pf == "ident-spec-rename" else ext,
                      "val": nvals + k, "meaning": "(I%d I%s)" % (nvals + k, MG_ARG)})
    return items


def mg_provide_text(items, tag):
    """(provide ...) forms of a library module for its own items"""
    main, second, begin = [], [], []
    for it in items:
        pf, e, i = it["pf"], it["ext"], it["int"]
        if pf == "atom":
            main.append(e)
        elif pf == "contract/out":
            main.append("(contract/out %s (->/c number? list?))" % e)
        elif pf == "ident-spec":
            main.append("(%%require-ident-spec %s %s)" % (e, e))
        elif pf == "ident-spec-rename":
            main.append("(%%require-ident-spec %s %s)" % (e, i))
        elif pf == "local-macro-spec":
            main.append("(mg%s/out %s)" % (tag, e))
        elif pf == "atom-2nd-provide":
            second.append(e)
        elif pf == "atom-begin-provide":
            begin.append(e)
    out = ["(define-syntax mg%s/out (syntax-rules () [(_ n) (%%require-ident-spec n n)]))" % tag,
           "(provide %s)" % "\n         ".join(main)]
    if second:
        out.append("(provide %s)" % " ".join(second))
    if begin:
        out.append("(begin (provide %s))" % " ".join(begin))
    return out


def mg_define_text(items):
    out = []
    for it in items:
        if it["kind"] == "proc":
            out.append("(define (%s x) (list '%s x))" % (it["int"], it["ext"].upper()))
        else:
            out.append("(define %s %d)" % (it["int"], it["val"]))
    return out


def mg_require_text(rf, path, names, pfx, ren):
    """require spec of form rf for the module file `path`; returns (text, local-name function)"""
    only = " ".join(names)
    pairs = " ".join("(%s %s%s)" % (n, ren, n) for n in names)
    if rf == "plain":
        return '(require "%s")' % path, (lambda n: n)
    if rf == "for-syntax":
        return '(require (for-syntax "%s"))' % path, (lambda n: n)
    if rf == "only-in":
        return '(require (only-in "%s" %s))' % (path, only), (lambda n: n)
    if rf == "only-in-rename":
        return '(require (only-in "%s" %s))' % (path, pairs), (lambda n: ren + n)
    if rf == "prefix-in":
        return '(require (prefix-in %s "%s"))' % (pfx, path), (lambda n: pfx + n)
    if rf == "prefix-only":
        return '(require (prefix-in %s (only-in "%s" %s)))' % (pfx, path, only), (lambda n: pfx + n)
    if rf == "only-prefix":
        return '(require (only-in (prefix-in %s "%s") %s))' % (pfx, path, only), (lambda n: pfx + n)
    if rf == "prefix-only-rename":
        return '(require (prefix-in %s (only-in "%s" %s)))' % (pfx, path, pairs), (lambda n: pfx + ren + n)
    raise ValueError(rf)


def mg_graph(level, rf, rf2="plain", macro_provide="for-syntax", only=None):
    """files of a module graph and the macros A exports.
    level 2: main -> A -> B.   level 3: main -> A -> B -> C, B re-exports C's names and exports a macro over them."""
    files = {}
    macros = []      # {"name", "ident_kind", "provide_form", "template", "spellings", "expected", "value"}
    b_items = mg_items("b", 1000)
    b_body = []
    b_prov = mg_provide_text(b_items, "b")
    reexp = []
    if level == 3:
        c_items = mg_items("c", 3000)
        files["mgc.scm"] = "\n".join(mg_provide_text(c_items, "c") + mg_define_text(c_items)) + "\n"
        rq, loc2 = mg_require_text(rf2, "mgc.scm", [it["ext"] for it in c_items], "q.", "s.")
        b_body.append(rq)
        # B re-exports what it imported from C: plainly and through a contract; and a macro over an import
        for it in c_items:
            ln = loc2(it["ext"])
            if it["kind"] == "proc" and it["pf"] in ("atom", "contract/out"):
                reexp.append({"kind": "proc", "pf": "reexport-atom(" + it["pf"] + ")", "ext": ln, "int": ln,
                              "meaning": it["meaning"], "origin": it["ext"]})
            elif it["kind"] == "proc" and it["pf"] in ("ident-spec", "atom-2nd-provide"):
                reexp.append({"kind": "proc", "pf": "reexport-contract(" + it["pf"] + ")", "ext": ln, "int": ln,
                              "meaning": it["meaning"], "origin": it["ext"]})
            elif it["kind"] == "value" and it["pf"] == "atom":
                reexp.append({"kind": "value", "pf": "reexport-atom(atom)", "ext": ln, "int": ln,
                              "meaning": it["meaning"], "origin": it["ext"]})
        re_atoms = [r["ext"] for r in reexp if r["pf"].startswith("reexport-atom")]
        re_con = [r["ext"] for r in reexp if r["pf"].startswith("reexport-contract")]
        b_prov.append("(provide %s %s)" % (" ".join(re_atoms),
                                           " ".join("(contract/out %s (->/c number? list?))" % n for n in re_con)))
        cm = [it for it in c_items if it["pf"] == "contract/out"][0]
        b_prov.append("(provide (for-syntax mgb-mac))")
        b_body.append("(define (mgb-mac-helper x) (list 'MGB-MAC-HELPER x))")
        b_body.append("(define-syntax mgb-mac (syntax-rules () [(_ x) (list (mgb-mac-helper x) (%s x))]))" % loc2(cm["ext"]))
        mgb_mac_meaning = "(('\"MGB-MAC-HELPER\" I%s) %s)" % (MG_ARG, cm["meaning"])
    files["mgb.scm"] = "\n".join(b_prov + b_body + mg_define_text(b_items)) + "\n"
    exports = b_items + reexp
    rq, loc = mg_require_text(rf, "mgb.scm", [it["ext"] for it in exports], "p.", "r.")
    a = [rq]
    for it in exports:
        ln = loc(it["ext"])
        nm = "mga-use-" + re.sub(r"[^a-z0-9-]+", "-", it["ext"])
        tmpl = "(%s x)" % ln if it["kind"] == "proc" else "(list %s x)" % ln
        sp = sorted({ln, it["ext"], it["int"], it.get("origin", it["ext"])})
        macros.append({"name": nm, "ident_kind": "imported-" + it["kind"], "provide_form": it["pf"], "template": tmpl,
                       "spellings": sp, "expected": it["meaning"], "value": it["kind"] == "value"})
    own = [
        ("mga-use-helper", "private-helper", "(mga-helper x)", ["mga-helper"], "('\"MGA-HELPER\" I%s)" % MG_ARG, False),
        ("mga-use-phelper", "provided-helper", "(mga-phelper x)", ["mga-phelper"], "('\"MGA-PHELPER\" I%s)" % MG_ARG, False),
        ("mga-use-pvalue", "private-value", "(list mga-pvalue x)", ["mga-pvalue"], "(I2001 I%s)" % MG_ARG, True),
        ("mga-use-inner", "private-macro", "(mga-inner x)", ["mga-inner"], "('\"MGA-INNER\" I%s)" % MG_ARG, False),
        ("mga-use-xinner", "exported-macro", "(mga-xinner x)", ["mga-xinner"], "('\"MGA-XINNER\" I%s)" % MG_ARG, False),
        ("mga-use-builtin", "builtin", "(number->string x)", ["number->string"], '"%s"' % MG_ARG, False),
    ]
    if level == 3:
        own.append(("mga-use-libmac", "imported-macro", "(mgb-mac x)", ["mgb-mac", "mgb-mac-helper"], mgb_mac_meaning, False))
    for nm, kind, tmpl, sp, exp, val in own:
        macros.append({"name": nm, "ident_kind": kind, "provide_form": None, "template": tmpl, "spellings": sp,
                       "expected": exp, "value": val})
    if only is not None:
        macros = [m for m in macros if m["name"] in only]
    names = [m["name"] for m in macros] + ["mga-xinner"]
    if macro_provide == "for-syntax":
        a.append("(provide %s mga-phelper)" % " ".join("(for-syntax %s)" % n for n in names))
    else:
        a.append("(provide %s mga-phelper)" % " ".join(names))
    a += ["(define (mga-helper x) (list 'MGA-HELPER x))", "(define (mga-phelper x) (list 'MGA-PHELPER x))",
          "(define mga-pvalue 2001)",
          "(define-syntax mga-inner (syntax-rules () [(_ x) (list 'MGA-INNER x)]))",
          "(define-syntax mga-xinner (syntax-rules () [(_ x) (list 'MGA-XINNER x)]))"]
    for m in macros:
        a.append("(define-syntax %s (syntax-rules () [(_ x) %s]))" % (m["name"], m["template"]))
    files["mga.scm"] = "\n".join(a) + "\n"
    return files, macros


MG_MACRO_KINDS = ("private-macro", "exported-macro", "imported-macro")
MG_BINDING_CONTEXTS = ("local-let", "local-lambda", "local-define", "later-global")


def mg_collision(ident_kind, context):
    """known class a use falls in, by construction of the generated program"""
    if ident_kind == "imported-macro":
        return "module_imported_macro"
    if ident_kind in ("private-macro", "exported-macro") and context in MG_BINDING_CONTEXTS:
        return "module_macro_name"
    return None


def mg_user_binding(sp, value, how):
    if how == "global":
        return "(define %s 'user)" % sp if value else "(define (%s . args) 'user)" % sp
    return "'user" if value else "(lambda args 'user)"


def mg_use(m, context):
    call = "(%s %s)" % (m["name"], MG_ARG)
    sps = m["spellings"]
    if context == "local-let":
        return "(let (%s) %s)" % (" ".join("[%s %s]" % (s, mg_user_binding(s, m["value"], "local")) for s in sps), call)
    if context == "local-lambda":
        return "((lambda (%s) %s) %s)" % (" ".join(sps), call,
                                          " ".join(mg_user_binding(s, m["value"], "local") for s in sps))
    if context == "local-define":
        return "(let () %s %s)" % (" ".join(mg_user_binding(s, m["value"], "global") for s in sps), call)
    return call


def mg_case(level, rf, context, layout, jit, rf2="plain", macro_provide="for-syntax", only=None):
    files, macros = mg_graph(level, rf, rf2, macro_provide, only)
    userdefs = []
    for m in macros:
        for s in m["spellings"]:
            d = mg_user_binding(s, m["value"], "global")
            if d not in userdefs:
                userdefs.append(d)
    req = '(require "@ROOT@/mga.scm")'
    if context == "also-lib":
        req += '\n(require "@ROOT@/mgb.scm")'
    elif context == "lib-first":
        req = '(require "@ROOT@/mgb.scm")\n' + req
    uses = [{"macro": m["name"], "ident_kind": m["ident_kind"], "provide_form": m["provide_form"],
             "template": m["template"], "src": mg_use(m, context), "expected": m["expected"],
             "spellings": m["spellings"]} for m in macros]
    pre = ["\n".join(userdefs)] if context == "earlier-global" else []
    if context == "indirect-first":
        # an earlier unit loads A only INDIRECTLY, through a module N that requires A without using any of A's
        # macros (A's imports are mentioned by A's macro templates only); a later unit requires A and uses them
        files["mgn.scm"] = '(require "mga.scm")\n(provide mgn-f)\n(define (mgn-f x) (list \'MGN x))\n'
        pre = ['(require "@ROOT@/mgn.scm")\n(mgn-f 1)']
    post = ["\n".join(userdefs)] if context == "later-global" else []
    if layout == "split":
        units = pre + [req] + post + [u["src"] for u in uses]
        slots = [[len(pre) + 1 + len(post) + k, None] for k in range(len(uses))]
        setup = len(pre) + 1 + len(post)
    else:
        # the require, the user's later definitions and the uses are one evaluation unit; uses whose template
        # identifier is a macro are expanded in units of their own after it (an expansion error of one of them
        # would otherwise hide the outcome of every other use of the unit)
        together = [k for k, u in enumerate(uses) if u["ident_kind"] not in MG_MACRO_KINDS]
        alone = [k for k, u in enumerate(uses) if u["ident_kind"] in MG_MACRO_KINDS]
        if len(uses) == 1:
            together, alone = [0], []
        body = [req] + post
        if together:
            body.append("(list %s)" % "\n      ".join(uses[k]["src"] for k in together))
        units = pre + ["\n".join(body)] + [uses[k]["src"] for k in alone]
        slots = [None] * len(uses)
        for j, k in enumerate(together):
            slots[k] = [len(pre), j]
        for j, k in enumerate(alone):
            slots[k] = [len(pre) + 1 + j, None]
        setup = len(pre)
    return {"family": "module_graph", "level": level, "require_form": rf, "require_form2": rf2 if level == 3 else None,
            "macro_provide": macro_provide, "context": context, "layout": layout, "jit": jit, "files": files,
            "units": units, "uses": uses, "slots": slots, "setup_units": setup}


def mg_single(c, u):
    """the program of case c reduced to one macro use (what is reported and replayed)"""
    s = mg_case(c["level"], c["require_form"], c["context"], c["layout"], c["jit"], c.get("require_form2") or "plain",
                c["macro_provide"], only=[u["macro"]])
    return s


def mg_materialize(c, root, tag):
    d = os.path.join(root, tag)
    os.makedirs(d, exist_ok=True)
    for name, text in c["files"].items():
        with open(os.path.join(d, name), "w") as f:
            f.write(text)
    return [u.replace("@ROOT@", d) for u in c["units"]]


def split_canon_list(text):
    """top-level elements of a canonical list value"""
    if not (text.startswith("(") and text.endswith(")")):
        return None
    out, depth, cur, instr = [], 0, "", False
    for ch in text[1:-1]:
        if ch == '"':
            instr = not instr
        if not instr and ch == "(":
            depth += 1
        if not instr and ch == ")":
            depth -= 1
        if not instr and ch == " " and depth == 0:
            if cur:
                out.append(cur)
            cur = ""
        else:
            cur += ch
    if cur:
        out.append(cur)
    return out


def mg_observe(c, res):
    """per use: the engine's observable.  A failing user-definition / require unit is reported on every use."""
    n = len(c["uses"])
    if res is None:
        return ["MISSING"] * n
    res = [r for r in res if "out" not in r]
    for r in res[:c["setup_units"]]:
        if "ok" not in r:
            return ["SETUP-" + impl_value(r)] * n
    outs = []
    for (ui, pos) in c["slots"]:
        if ui >= len(res):
            outs.append("MISSING")
            continue
        v = impl_value(res[ui])
        if pos is None:
            outs.append(v)
            continue
        parts = split_canon_list(v) if "ok" in res[ui] else None
        together = len([1 for sl in c["slots"] if sl[0] == ui and sl[1] is not None])
        if parts is None or len(parts) != together:
            outs.append(v if n == 1 else "UNIT-" + v)
        else:
            outs.append(parts[pos])
    return outs


def mg_desc(c, u, got):
    s = mg_single(c, u)
    d = {k: v for k, v in s.items() if k not in ("uses", "slots", "setup_units")}
    d["collision"] = mg_collision(u["ident_kind"], c["context"])
    d.update({"macro": u["macro"], "ident_kind": u["ident_kind"], "provide_form": u["provide_form"],
              "template": u["template"], "use": u["src"], "spellings": u["spellings"], "expected": u["expected"],
              "impl": got})
    return d


def mg_selftest_descs():
    """one description per (kind of template identifier, context) for the self-test of the known-class predicates"""
    out = []
    for ctx in MG_CONTEXTS:
        c = mg_case(3, "plain", ctx, "split", True)
        seen = set()
        for u in c["uses"]:
            if u["ident_kind"] not in seen:
                seen.add(u["ident_kind"])
                d = {k: c[k] for k in ("family", "level", "require_form", "context", "layout", "jit")}
                d.update({"ident_kind": u["ident_kind"], "provide_form": u["provide_form"], "units": [u["src"]],
                          "collision": mg_collision(u["ident_kind"], ctx), "coq": None})
                out.append(d)
    return out


def mg_matrix(levels=(2, 3), jits=(True, False)):
    out = []
    for level in levels:
        for rf in MG_REQUIRE_FORMS:
            for ctx in MG_CONTEXTS:
                for layout in MG_LAYOUTS:
                    for jit in jits:
                        out.append((level, rf, ctx, layout, jit))
    return out


MG_CORPUS = [  # the basic combinations, always run (also written to corpus/c13/module_graph_*.json)
    (2, "plain", "earlier-global", "same-unit", True), (2, "plain", "earlier-global", "split", True),
    (2, "plain", "plain", "split", True), (2, "plain", "local-let", "same-unit", True),
    (2, "plain", "local-lambda", "split", False), (2, "plain", "local-define", "split", True),
    (2, "plain", "also-lib", "split", True), (2, "plain", "later-global", "split", True),
    (2, "plain", "indirect-first", "split", True), (3, "plain", "indirect-first", "split", False),
    (2, "only-in", "indirect-first", "split", True),
    (2, "only-in", "earlier-global", "split", True), (2, "prefix-in", "earlier-global", "split", True),
    (2, "prefix-only", "plain", "split", True), (2, "only-in-rename", "plain", "split", True),
    (3, "plain", "earlier-global", "split", True), (3, "plain", "local-let", "same-unit", False),
]


def mg_corpus_dir():
    return os.path.join(common.ROOT, "corpus", "c13")


def mg_write_corpus():
    """(maintenance) regenerate corpus/c13/module_graph_*.json from MG_CORPUS"""
    os.makedirs(mg_corpus_dir(), exist_ok=True)
    for k, (level, rf, ctx, layout, jit) in enumerate(MG_CORPUS):
        c = mg_case(level, rf, ctx, layout, jit)
        name = "module_graph_%02d_l%d_%s_%s_%s_%s.json" % (k, level, rf, ctx, layout, "jit" if jit else "nojit")
        with open(os.path.join(mg_corpus_dir(), name), "w") as f:
            json.dump(c, f, indent=1, sort_keys=True)


def mg_load_corpus():
    import glob
    out = []
    for p in sorted(glob.glob(os.path.join(mg_corpus_dir(), "module_graph_*.json"))):
        c = json.load(open(p))
        c["corpus"] = os.path.basename(p)
        out.append(c)
    return out


def mg_eval(ck, cases, root):
    """run the cases (JIT on / off in separate worker pools); returns per case the per-use observables"""
    obs = [None] * len(cases)
    for jit in (True, False):
        ids = [i for i, c in enumerate(cases) if bool(c["jit"]) == jit]
        if not ids:
            continue
        units = [mg_materialize(cases[i], root, "g%d" % i) for i in ids]
        res = ck.eval_cases(units, batch=6, timeout_per_batch=300, fresh=True,
                            env=None if jit else {"STEEL_JIT": "false"})
        for i, r in zip(ids, res):
            obs[i] = mg_observe(cases[i], r)
    return obs


def mg_run(ck, facts, escalate):
    """the family: corpus + sampled (quick) or full (thorough / escalated) matrix.  Returns number of failing inputs."""
    import shutil
    root = os.path.join(ck.work, "modgraph")
    shutil.rmtree(root, ignore_errors=True)
    quick = ck.tier == "quick"
    cases = mg_load_corpus()
    have = {(c["level"], c["require_form"], c["context"], c["layout"], c["jit"]) for c in cases}
    if escalate:
        combos = mg_matrix(jits=(True,)) if quick else mg_matrix()
    elif quick:
        allc = mg_matrix()
        combos = ck.rng.sample(allc, 120)
    else:
        combos = mg_matrix()
    for (level, rf, ctx, layout, jit) in combos:
        if (level, rf, ctx, layout, jit) in have:
            continue
        rf2 = "plain" if level == 2 else ck.rng.choice(MG_REQUIRE_FORMS)
        mp = ck.rng.choice(["for-syntax", "for-syntax", "atom"])
        cases.append(mg_case(level, rf, ctx, layout, jit, rf2, mp))
    ck.log("module graphs: %d programs (%d from the corpus)%s" % (
        len(cases), len([c for c in cases if c.get("corpus")]), ", escalated to the whole matrix" if escalate else ""))
    obs = mg_eval(ck, cases, os.path.join(root, "run"))
    hist = ck.cov.setdefault("outcome_histogram", {})
    seen = set()
    fails = []
    for i, c in enumerate(cases):
        for u, got in zip(c["uses"], obs[i]):
            ck.cov["evaluations"] += 1
            key = ("module_graph", c["level"], c["require_form"], c["require_form2"], u["provide_form"], u["ident_kind"],
                   c["context"], c["layout"], c["jit"], c["macro_provide"])
            seen.add(key)
            if got == u["expected"]:
                bump(hist, "module_graph:definition-site")
            else:
                fails.append((i, u, got))
    # failing uses: unit-level failures of the same-unit layout are re-run one use per program; every failing use is
    # reported as the reduced program (one macro use), which is what the replay runs
    nfail = 0
    singles, owners = [], []
    cap = 60 if quick else 400      # reduced programs that are run to confirm (25 violations are reported at most)
    unresolved = 0
    for i, u, got in fails:
        c = cases[i]
        d = mg_desc(c, u, got)
        if ck.classify(d) is None or got.startswith(("UNIT-", "SETUP-")):
            if len(singles) < cap:
                singles.append(mg_single(c, u))
                owners.append((i, u, got))
            elif got.startswith(("UNIT-", "SETUP-")):
                unresolved += 1
    sobs = mg_eval(ck, singles, os.path.join(root, "single")) if singles else []
    confirmed = {}
    nreported = 0
    for (i, u, got), s, o in zip(owners, singles, sobs):
        confirmed[(i, u["macro"])] = o[0]
    for i, u, got in fails:
        c = cases[i]
        g2 = confirmed.get((i, u["macro"]), got)
        if (i, u["macro"]) not in confirmed and got.startswith(("UNIT-", "SETUP-")) and ck.classify(mg_desc(c, u, got)) is None:
            bump(hist, "module_graph:unit-failed-not-rerun")    # beyond the cap: the reported ones carry the replay
            continue
        if g2 == u["expected"] and got.startswith(("UNIT-", "SETUP-")):
            bump(hist, "module_graph:definition-site")      # only a sibling use of the same unit failed
            continue
        d = mg_desc(c, u, g2)
        if g2 == u["expected"]:
            d["impl"] = got
            d["note"] = "fails only together with the other uses of the generated program"
            d.update({k: c[k] for k in ("units", "files")})
        bump(hist, "module_graph:" + ("error:" + g2.split(":")[1].split(" ")[0] if ":" in g2 and g2.split(":")[0].endswith("E") else "other-binding"))
        nfail += 1
        if ck.classify(d) is None:
            nreported += 1
            if nreported > 8:        # one replay per failing input; the remaining ones are counted in the histogram
                bump(hist, "module_graph:unclassified-not-reported")
                continue
        fid = ck.failing_input(
            "module graph (level %d, A requires B by %s, B provides by %s, template identifier: %s, use context %s, %s, JIT %s): "
            "%s gives %s, definition-site meaning %s" % (
                c["level"], c["require_form"], u["provide_form"], u["ident_kind"], c["context"], c["layout"],
                "on" if c["jit"] else "off", u["src"], g2, u["expected"]), d, tag="modgraph")
        if fid:
            bump(hist, "module_graph:known:" + fid)
    for c in cases[:2] + cases[len(cases) // 2:len(cases) // 2 + 1]:
        ck.sample({k: c[k] for k in ("family", "level", "require_form", "context", "layout", "jit", "units")}
                  | {"files": sorted(c["files"]), "uses": len(c["uses"])}, cap=9)
    ck.log("module graphs: %d macro uses, %d not the definition-site meaning" % (sum(len(c["uses"]) for c in cases), nfail))
    ck.cov["module_graph"] = {
        "cases": len(cases), "corpus_cases": len([c for c in cases if c.get("corpus")]),
        "uses": sum(len(c["uses"]) for c in cases), "failing_uses": nfail, "escalated": bool(escalate),
        "reduced_programs_rerun": len(singles), "unit_failures_not_rerun": unresolved,
        "provide_forms_generated": MG_PROVIDE_FORMS, "require_forms_generated": MG_REQUIRE_FORMS,
        "contexts": MG_CONTEXTS, "layouts": MG_LAYOUTS,
        "enumerated_from_modules_rs": facts, "uncovered_forms": mg_uncovered(facts) if facts else ["(enumeration failed)"],
        "combinations_total": len(mg_matrix()), "distinct_combinations_run": len(seen)}
    return nfail, seen
