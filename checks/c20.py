"""C20 — the host boundary converts faithfully and never exposes dangling host references
(DESIGN.md section 4, C20).

(G) translator: primitives.rs / register_fn.rs / gc.rs / engine.rs -> coq/gen/Gen_C20.v (conversion table per
    host integer type and direction, wrapper index tables, Option encodings, lending-protocol facts)
(P) coq/c20: conv_range / conv_roundtrip / conv_into_exact over all of Z for the generated table,
    wrapper_sound for the generated wrapper tables, lend_scoped by induction over histories
(C) harness/src/bin/c20.rs: recording host functions of every signature shape + lending; oracle = the
    range specification on python ints, independent of the Coq model.
"""
import json
import os
import re
import struct

from checks import common
from checks.common import TieBroken

PRIMS = "crates/steel-core/src/primitives.rs"
REGFN = "crates/steel-core/src/steel_vm/register_fn.rs"
GCRS = "crates/steel-core/src/gc.rs"
ENGINE = "crates/steel-core/src/steel_vm/engine.rs"

INT_TYPES = {  # name -> (signed, bits); pointer-sized types are 64 bit on the verified target
    "i8": (True, 8), "i16": (True, 16), "i32": (True, 32), "i64": (True, 64), "i128": (True, 128), "isize": (True, 64),
    "u8": (False, 8), "u16": (False, 16), "u32": (False, 32), "u64": (False, 64), "u128": (False, 128), "usize": (False, 64),
}
ORDER = ["i8", "i16", "i32", "i64", "isize", "i128", "u8", "u16", "u32", "u64", "usize", "u128"]


# ------------------------------------------------------------------------------------------------
# translator
# ------------------------------------------------------------------------------------------------
def strip_rust_comments(src):
    src = re.sub(r"/\*.*?\*/", lambda m: re.sub(r"[^\n]", " ", m.group(0)), src, flags=re.S)
    return re.sub(r"//[^\n]*", "", src)


def block_at(src, start):
    """src[start] is at or before a '{': return (body, end) of the brace-balanced block."""
    i = src.index("{", start)
    depth = 0
    j = i
    while j < len(src):
        c = src[j]
        if c == "{":
            depth += 1
        elif c == "}":
            depth -= 1
            if depth == 0:
                return src[i:j + 1], j + 1
        j += 1
    raise TieBroken("unbalanced braces after offset %d" % start)


def into_mode_of(body, what):
    has_as = re.search(r"\bas\s+isize\b", body) is not None
    promote = "BigNum" in body and re.search(r"isize::try_from|try_into|>\s*isize::MAX", body) is not None
    if promote:
        # `value as isize` guarded by the `> isize::MAX` test is fine; an unguarded cast is not
        if has_as and not re.search(r">\s*isize::MAX", body):
            raise TieBroken("%s: both a bignum promotion and an unguarded `as isize`" % what)
        return "IntoPromote"
    if has_as:
        return "IntoAs"
    return None


def from_mode_of(body, ty_pat, what):
    if re.search(r"\bas\s+" + ty_pat, body):
        return "FromAs"
    if re.search(r"try_from\(|try_into\(\)", body):
        return "FromCheckedBig" if "SteelVal::BigNum(" in body else "FromChecked"
    raise TieBroken("%s: neither an `as` cast nor try_from/try_into found" % what)


def translate_table(prims_src):
    """Return ({type: {'into': mode|None, 'from': mode|None, 'into_src':.., 'from_src':..}}, facts)."""
    src = strip_rust_comments(prims_src)
    cut = src.find("#[cfg(test)]")
    if cut > 0:
        src = src[:cut]
    table = {t: {"into": [], "from": []} for t in INT_TYPES}
    # ---- macros
    macros = {}
    for m in re.finditer(r"macro_rules!\s*([A-Za-z0-9_]+)\s*\{", src):
        body, _ = block_at(src, m.start())
        macros[m.group(1)] = body
    seen_macro = False
    for name, body in macros.items():
        gives_into = re.search(r"impl\s+IntoSteelVal\s+for\s+\$body", body) or re.search(r"impl\s+From<\$body>\s+for\s+SteelVal", body)
        gives_from = re.search(r"impl\s+FromSteelVal\s+for\s+\$body", body)
        if not (gives_into or gives_from):
            continue
        takes_variant = re.search(r"\(\s*\$type:ident\s*=>", body) is not None
        for inv in re.finditer(r"(?m)^\s*" + re.escape(name) + r"!\s*\(([^;]*)\)\s*;", src):
            args = inv.group(1)
            variant = None
            if takes_variant:
                mm = re.match(r"\s*([A-Za-z0-9_]+)\s*=>\s*(.*)", args, re.S)
                if not mm:
                    raise TieBroken("cannot parse invocation of %s!: %s" % (name, args))
                variant, args = mm.group(1), mm.group(2)
            tys = [t.strip() for t in args.split(",") if t.strip()]
            for t in tys:
                if t not in INT_TYPES:
                    continue  # f64 / f32: handled by the differential runs only
                seen_macro = True
                if takes_variant and variant != "IntV":
                    raise TieBroken("%s!(%s => %s): integer type matched against a non-integer variant" % (name, variant, t))
                if gives_into:
                    # every impl block of the macro that converts must be judged: take the worst
                    modes = []
                    for im in re.finditer(r"impl\s+(IntoSteelVal\s+for\s+\$body|From<\$body>\s+for\s+SteelVal)", body):
                        b, _ = block_at(body, im.start())
                        if re.search(r"SteelVal::from\(self\)|self\.into\(\)", b) and "IntV" not in b:
                            continue  # delegates to the From impl
                        mo = into_mode_of(b, "%s! impl" % name)
                        if mo is None:
                            raise TieBroken("%s!: cannot classify host->script conversion" % name)
                        modes.append(mo)
                    if not modes:
                        raise TieBroken("%s!: no converting impl found" % name)
                    table[t]["into"].append(("IntoAs" if "IntoAs" in modes else "IntoPromote", "%s!" % name))
                if gives_from:
                    modes = []
                    for im in re.finditer(r"impl\s+FromSteelVal\s+for\s+\$body", body):
                        b, _ = block_at(body, im.start())
                        modes.append(from_mode_of(b, r"\$body", "%s! impl" % name))
                    table[t]["from"].append((worst_from(modes), "%s!" % name))
    if not seen_macro:
        raise TieBroken("no conversion macro invocation for an integer type found in " + PRIMS)
    # ---- hand-written impls
    for m in re.finditer(r"impl\s+FromSteelVal\s+for\s+([a-z0-9]+)\s*\{", src):
        t = m.group(1)
        if t in INT_TYPES:
            b, _ = block_at(src, m.start())
            table[t]["from"].append((from_mode_of(b, t + r"\b", "impl FromSteelVal for " + t), "impl"))
    from_impl = {}
    for m in re.finditer(r"impl\s+From<([a-z0-9]+)>\s+for\s+SteelVal\s*\{", src):
        t = m.group(1)
        if t in INT_TYPES:
            b, _ = block_at(src, m.start())
            mo = into_mode_of(b, "impl From<%s> for SteelVal" % t)
            if mo is None:
                raise TieBroken("impl From<%s> for SteelVal: cannot classify" % t)
            from_impl[t] = mo
    for m in re.finditer(r"impl\s+IntoSteelVal\s+for\s+([a-z0-9]+)\s*\{", src):
        t = m.group(1)
        if t in INT_TYPES:
            b, _ = block_at(src, m.start())
            if re.search(r"SteelVal::from\(self\)|self\.into\(\)", b):
                if t not in from_impl:
                    raise TieBroken("impl IntoSteelVal for %s delegates to a From impl that was not found" % t)
                table[t]["into"].append((from_impl[t], "impl"))
            else:
                mo = into_mode_of(b, "impl IntoSteelVal for " + t)
                if mo is None:
                    raise TieBroken("impl IntoSteelVal for %s: cannot classify" % t)
                table[t]["into"].append((mo, "impl"))
    out = {}
    for t, d in table.items():
        for k in ("into", "from"):
            if len(d[k]) > 1:
                raise TieBroken("%s: %d %s conversions found (%s)" % (t, len(d[k]), k, d[k]))
        out[t] = {"into": d["into"][0][0] if d["into"] else None, "from": d["from"][0][0] if d["from"] else None,
                  "into_src": d["into"][0][1] if d["into"] else None, "from_src": d["from"][0][1] if d["from"] else None}
    if not any(v["into"] for v in out.values()) or not any(v["from"] for v in out.values()):
        raise TieBroken("conversion table is empty")
    # ---- Option encodings
    facts = {}
    m = re.search(r"impl<T:\s*Into<SteelVal>>\s*From<Option<T>>\s*for\s*SteelVal\s*\{", src)
    if not m:
        raise TieBroken("impl From<Option<T>> for SteelVal not found")
    b, _ = block_at(src, m.start())
    mm = re.search(r"SteelVal::BoolV\((true|false)\)", b)
    if not mm:
        raise TieBroken("From<Option<T>>: encoding of None not found")
    facts["option_none_from"] = mm.group(1)
    m = re.search(r"impl<T:\s*IntoSteelVal>\s*IntoSteelVal\s*for\s*Option<T>\s*\{", src)
    if not m:
        raise TieBroken("impl IntoSteelVal for Option<T> not found")
    b, _ = block_at(src, m.start())
    mm = re.search(r"SteelVal::BoolV\((true|false)\)", b)
    if not mm:
        raise TieBroken("IntoSteelVal for Option<T>: encoding of None not found")
    facts["option_none_into"] = mm.group(1)
    m = re.search(r"impl<T:\s*FromSteelVal>\s*FromSteelVal\s*for\s*Option<T>\s*\{", src)
    if not m:
        raise TieBroken("impl FromSteelVal for Option<T> not found")
    b, _ = block_at(src, m.start())
    if not re.search(r"if\s+val\.is_truthy\(\)\s*\{\s*Ok\(Some\(T::from_steelval\(val\)\?\)\)\s*\}\s*else\s*\{\s*Ok\(None\)", b):
        raise TieBroken("FromSteelVal for Option<T>: expected `if val.is_truthy() { Ok(Some(T::from_steelval(val)?)) } else { Ok(None) }`")
    return out, facts


def worst_from(modes):
    for m in ("FromAs", "FromChecked", "FromCheckedBig"):
        if m in modes:
            return m
    raise TieBroken("no FromSteelVal impl inside macro")


def translate_wrappers(reg_src):
    src = strip_rust_comments(reg_src)
    facts = {}
    tables = {}
    for mac in ("impl_register_fn", "impl_register_fn_self"):
        m = re.search(r"macro_rules!\s*" + mac + r"\s*\{", src)
        if not m:
            raise TieBroken("macro %s not found in %s" % (mac, REGFN))
        body, _ = block_at(src, m.start())
        closures = re.findall(r"let f = move \|args: &\[SteelVal\]\|", body)
        arity_checks = re.findall(r"if args\.len\(\) != \$arg_count \{\s*stop!\(ArityMismatch", body)
        reads = re.findall(r"\$\(<\$param>::from_steelval\(&args\[\$idx\]\)", body)
        # every generated closure must start with the arity test and read its parameters through
        # <$param>::from_steelval(&args[$idx]) with `?` propagation
        facts[mac + "_closures"] = len(closures)
        facts[mac + "_arity_checks"] = len(arity_checks)
        facts[mac + "_reads"] = len(reads)
        if not closures:
            raise TieBroken("%s: no wrapper closure found" % mac)
        rows = []
        for inv in re.finditer(r"(?m)^\s*" + mac + r"!\s*\(\s*(\d+)\s*=>\s*([^;]*)\)\s*;", src):
            k = int(inv.group(1))
            idx = []
            for p in inv.group(2).split(","):
                mm = re.match(r"\s*([A-Z])\s*:\s*(\d+)\s*$", p)
                if not mm:
                    raise TieBroken("%s!(%d => ...): cannot parse parameter %r" % (mac, k, p))
                idx.append(int(mm.group(2)))
            rows.append((k, idx))
        if not rows:
            raise TieBroken("no invocation of %s! found" % mac)
        tables[mac] = rows
    return tables, facts


def translate_lending(gc_src, eng_src):
    gc = strip_rust_comments(gc_src)
    eng = strip_rust_comments(eng_src)
    f = {}
    # LifetimeGuard::drop frees the strong owners it allocated
    m = re.search(r"impl<'a>\s*Drop\s+for\s+LifetimeGuard<'a>\s*\{", eng)
    if not m:
        raise TieBroken("impl Drop for LifetimeGuard not found")
    b, _ = block_at(eng, m.start())
    f["guard_drop_frees"] = bool(re.search(r"OpaqueReferenceNursery::free_n\(self\.count\)", b))
    # consume takes the guard by value (so the drop happens when the lending call returns)
    f["consume_by_value"] = bool(re.search(r"pub fn consume<T>\(\s*self\s*,", eng))
    # free_n pops from `memory` (the strong owners)
    m = re.search(r"fn free_n\(count: usize\)\s*\{", gc)
    if not m:
        raise TieBroken("OpaqueReferenceNursery::free_n not found")
    b, _ = block_at(gc, m.start())
    f["free_n_pops_memory"] = bool(re.search(r"x\.memory\.write\(\);\s*for i in 0\.\.count \{\s*guard\.pop\(\);", b))
    # allocate_rw_object: strong owner into memory, only a weak pointer into the script-visible object
    m = re.search(r"fn allocate_rw_object<'a, T: 'a, EXT: 'static>\(obj: &mut T\)\s*\{", gc)
    if not m:
        raise TieBroken("allocate_rw_object not found")
    b, _ = block_at(gc, m.start())
    f["alloc_weak_only"] = bool(re.search(r"let weak_ptr = StandardShared::downgrade\(&wrapped\);\s*let borrowed = BorrowedObject::new\(weak_ptr\);", b)
                                and re.search(r"x\.memory\.write\(\)\.push\(Box::new\(wrapped\)\)", b))
    # every use upgrades the weak pointer or errors
    ups = 0
    for name in ("as_mut_ref_from_ref", "as_ref_from_ref"):
        m = re.search(r"fn " + name + r"\(val: &SteelVal\)", gc)
        if not m:
            raise TieBroken(name + " not found")
        b, _ = block_at(gc, m.start())
        n_up = len(re.findall(r"\.ptr\.upgrade\(\)\.ok_or_else\(", b))
        n_ptr = len(re.findall(r"\.ptr\b", b))
        if n_up >= 1 and n_up == n_ptr:
            ups += 1
    f["use_upgrades"] = ups == 2
    # run_with_reference goes through with_mut_reference(..).consume(..)
    f["run_uses_guard"] = len(re.findall(r"self\.with_mut_reference\(obj\)\.consume\(", eng)) >= 3
    return f


def coq_bool(b):
    return "true" if b in (True, "true") else "false"


def render_gen(table, opt, wrappers, wfacts, lend):
    L = ["(* GENERATED by checks/c20.py on every run from %s, %s, %s, %s — do not edit. *)" % (PRIMS, REGFN, GCRS, ENGINE),
         "From Coq Require Import ZArith List String.",
         "From SV Require Import c20.Types_C20.",
         "Import ListNotations.",
         "Open Scope Z_scope.",
         "Open Scope string_scope.",
         "",
         "(* per host integer type: name, signed, bits, host->script mode, script->host mode *)",
         "Definition conv_table : list ity := ["]
    rows = []
    for t in ORDER:
        d = table[t]
        if d["into"] is None and d["from"] is None:
            continue
        s, b = INT_TYPES[t]
        rows.append('  mk_ity "%s" %s %d %s %s  (* %s ; %s *)' % (
            t, coq_bool(s), b,
            "(Some %s)" % d["into"] if d["into"] else "None",
            "(Some %s)" % d["from"] if d["from"] else "None", d["into_src"], d["from_src"]))
    L.append(";\n".join(rows))
    L.append("].")
    L.append("")
    L.append("(* None is encoded as BoolV(<this>) by From<Option<T>> / IntoSteelVal for Option<T> *)")
    L.append("Definition option_none_from : bool := %s." % coq_bool(opt["option_none_from"]))
    L.append("Definition option_none_into : bool := %s." % coq_bool(opt["option_none_into"]))
    L.append("")
    for mac, nm in (("impl_register_fn", "wrapper_table"), ("impl_register_fn_self", "self_wrapper_table")):
        L.append("(* %s!(k => P:i, ...) invocations *)" % mac)
        L.append("Definition %s : list wrapper_row := [" % nm)
        L.append(";\n".join("  (%d%%nat, [%s])" % (k, "; ".join("%d%%nat" % i for i in idx)) for k, idx in wrappers[mac]))
        L.append("].")
        c, a, r = (wfacts[mac + "_closures"], wfacts[mac + "_arity_checks"], wfacts[mac + "_reads"])
        L.append("(* closures generated by the macro / of which start with the arity test / read args through from_steelval(&args[$idx]) *)")
        L.append("Definition %s_closures : nat := %d%%nat." % (nm, c))
        L.append("Definition %s_arity_checks : nat := %d%%nat." % (nm, a))
        L.append("Definition %s_reads : nat := %d%%nat." % (nm, r))
        L.append("")
    L.append("(* lending protocol facts (gc.rs unsafe_erased_pointers, engine.rs LifetimeGuard) *)")
    for k in ("guard_drop_frees", "consume_by_value", "free_n_pops_memory", "alloc_weak_only", "use_upgrades", "run_uses_guard"):
        L.append("Definition %s : bool := %s." % (k, coq_bool(lend[k])))
    return "\n".join(L) + "\n"


def translate(ck=None):
    table, opt = translate_table(common.repo_file(PRIMS))
    wrappers, wfacts = translate_wrappers(common.repo_file(REGFN))
    lend = translate_lending(common.repo_file(GCRS), common.repo_file(ENGINE))
    text = render_gen(table, opt, wrappers, wfacts, lend)
    if ck is not None:
        ck.translate("Gen_C20", text)
    return table, opt, wrappers, wfacts, lend, text


if __name__ == "__main__":
    print(translate()[-1])


# ------------------------------------------------------------------------------------------------
# oracle (python ints; independent of the Coq model) and case generators
# ------------------------------------------------------------------------------------------------
HARNESS_INTS = ["i8", "i16", "i32", "i64", "isize", "u8", "u16", "u32", "u64", "usize"]
ISZ_MIN, ISZ_MAX = -2**63, 2**63 - 1


def rng_of(t):
    s, b = INT_TYPES[t]
    return (-(2**(b - 1)), 2**(b - 1) - 1) if s else (0, 2**b - 1)


def in_range(t, z):
    lo, hi = rng_of(t)
    return lo <= z <= hi


def script_canon(z):
    """canonical rendering (harness `canon`) of the script integer z"""
    return ("I%d" % z) if ISZ_MIN <= z <= ISZ_MAX else ("B%d" % z)


def boundary_values():
    vals = {0, 1, -1, 2, -2, 10**30, -10**30, 10**40 + 7, 2**200, -(2**200) - 1}
    for k in (7, 8, 15, 16, 31, 32, 63, 64, 127, 128):
        for d in (-1, 0, 1):
            vals.add(2**k + d)
            vals.add(-(2**k) + d)
    return sorted(vals)


BOUNDARY = boundary_values()

PRELUDE = """
(define c20-log '())
(define c20-g1 #f) (define c20-g2 #f) (define c20-g3 #f) (define c20-g4 #f)
(define c20-g5 #f) (define c20-g6 #f) (define c20-g7 #f)
(define c20-c2 (lambda () #f))
(define c20-l3 (list 0 #f 0))
(define c20-v (vector #f #f #f #f #f #f #f #f))
(define c20-h (hash))
(define c20-b6 (box #f))
(define c20-x 0)
(define (c20-use-get r) (with-handler (lambda (e) 0) (begin (ext-get r) 1)))
(define (c20-use-set r v) (with-handler (lambda (e) 0) (begin (ext-set! r v) 1)))
(define (c20-use-peek r) (with-handler (lambda (e) 0) (begin (ext-peek r) 1)))
(define (c20-note r) (set! c20-log (cons r c20-log)))
"""

RESET = ("(begin (set! c20-log '()) (set! c20-g1 #f) (set! c20-g2 #f) (set! c20-g3 #f) (set! c20-g4 #f) (set! c20-g5 #f) "
         "(set! c20-g6 #f) (set! c20-g7 #f) (set! c20-c2 (lambda () #f)) (set! c20-l3 (list 0 #f 0)) "
         "(set! c20-v (vector #f #f #f #f #f #f #f #f)) (set! c20-h (hash)) (set! c20-b6 (box #f)))")


def obs(res):
    """property-level observable of one unit's outcome"""
    if res is None:
        return "none"
    if "ok" in res:
        return "ok:" + (res["ok"][-1] if res["ok"] else "")
    if "err" in res:
        return "err:" + res["err"]
    if "crash" in res:
        return "CRASH:%s" % res["crash"]
    if "hang" in res:
        return "HANG"
    return "P:" + str(res.get("panic", "?"))[:200]


def qs(s):
    return '"' + s + '"'


class Case(dict):
    pass


def mk(family, units, expect, **kw):
    """expect: list (one per unit) of: exact observable string | None (don't care) | callable(obs)->bool"""
    c = Case(family=family, units=units, **kw)
    c["_expect"] = expect
    return c


# ---- integers, script -> host
INT_SHAPES = ["direct", "opt", "vec", "extract", "res", "map", "pair", "recv"]


def take_case(t, z, shape):
    lit = str(z)
    ok = in_range(t, z)
    kw = dict(ty=t, value=lit, shape=shape, direction="script->host", in_range=ok)
    if shape == "direct":
        return mk("int", ["(take-%s %s)" % (t, lit), "#!calls"],
                  ["ok:" + qs(lit), "ok:I1"] if ok else ["err:ConversionError", "ok:I0"], **kw)
    if shape == "opt":
        return mk("int", ["(take-opt-%s %s)" % (t, lit), "#!calls"],
                  ["ok:" + qs("Some(%s)" % lit), "ok:I1"] if ok else ["err:ConversionError", "ok:I0"], **kw)
    if shape == "vec":
        return mk("int", ["(take-vec-%s (list 1 %s 0))" % (t, lit), "#!calls"],
                  ["ok:" + qs("[1, %s, 0]" % lit), "ok:I1"] if ok else ["err:ConversionError", "ok:I0"], **kw)
    if shape == "extract":
        return mk("int", ["(define c20-x %s)" % lit, "#!extract %s c20-x" % t],
                  [None, "ok:" + lit if ok else "err:ConversionError"], **kw)
    if shape == "res":       # Result<i32, String>
        ok = in_range("i32", z)
        kw.update(ty="i32", in_range=ok)
        return mk("int", ["(take-res-i32 (Ok %s))" % lit, "#!calls"],
                  ["ok:" + qs("Ok(%s)" % lit), "ok:I1"] if ok else ["err:ConversionError", "ok:I0"], **kw)
    if shape == "map":       # HashMap<String, i32>
        ok = in_range("i32", z)
        kw.update(ty="i32", in_range=ok)
        return mk("int", ['(take-map-i32 (hash "k" %s))' % lit, "#!calls"],
                  ["ok:" + qs('[(\\"k\\", %s)]' % lit), "ok:I1"] if ok else ["err:ConversionError", "ok:I0"], **kw)
    if shape == "pair":      # (i32, u8)
        ok = in_range("i32", z)
        kw.update(ty="i32", in_range=ok)
        return mk("int", ["(take-pair-i32 (list %s 7))" % lit, "#!calls"],
                  ["ok:" + qs("(%s, 7)" % lit), "ok:I1"] if ok else ["err:ConversionError", "ok:I0"], **kw)
    if shape == "recv":      # |p: &Pt, dx: i32, dy: u8|
        ok = in_range("i32", z)
        kw.update(ty="i32", in_range=ok)
        return mk("int", ["(pt-add (make-pt 0 0) %s 0)" % lit, "#!calls"],
                  ["ok:" + script_canon(z), "ok:I2"] if ok else ["err:ConversionError", "ok:I1"], **kw)
    raise ValueError(shape)


# ---- integers, host -> script
GIVE_SHAPES = ["direct", "vec", "inject-from", "inject-into", "roundtrip"]


def give_case(t, x, shape):
    assert in_range(t, x)
    lit = str(x)
    kw = dict(ty=t, value=lit, shape=shape, direction="host->script", in_range=True)
    if shape == "direct" or t == "u128" and shape in ("vec", "roundtrip"):
        return mk("int", ["(give-%s %s)" % (t, qs(lit))], ["ok:" + script_canon(x)], **kw)
    if shape == "vec":
        return mk("int", ["(give-vec-%s %s)" % (t, qs("1," + lit))], ["ok:(I1 %s)" % script_canon(x)], **kw)
    if shape in ("inject-from", "inject-into"):
        via = shape.split("-")[1]
        return mk("int", ["#!inject %s %s %s c20-x" % (t, via, lit), "c20-x"], [None, "ok:" + script_canon(x)], **kw)
    if shape == "roundtrip":
        return mk("int", ["(take-%s (give-%s %s))" % (t, t, qs(lit))], ["ok:" + qs(lit)], **kw)
    raise ValueError(shape)


# ---- wrong kinds
KIND_EXPRS = {
    "int": "5", "float": "1.5", "string": '"s"', "char": "#\\a", "true": "#t", "false": "#f", "list": "(list 1 2)",
    "ivector": "(immutable-vector 1 2)", "symbol": "'sym", "void": "(void)", "hash": '(hash "a" 1)', "hashset": "(hashset 1 2)",
    "pair2": '(list 1 "x")', "pt": "(make-pt 1 2)", "other": "(make-other 1)", "okres": "(Ok 1)", "lambda": "(lambda (x) x)",
    "bignum": "100000000000000000000", "ratio": "1/2",
}
# which kinds a parameter type accepts, and what the host then sees
ACCEPTS = {
    "take-i32": {"int": "5"}, "take-u64": {"int": "5"}, "take-i8": {"int": "5"}, "take-usize": {"int": "5"},
    "take-f64": {"float": "3ff8000000000000"},
    "take-f32": {"float": "3fc00000"},
    "take-string": {"string": '\\"s\\"', "symbol": '\\"sym\\"'},   # String also accepts symbols (documented leniency)
    "take-char": {"char": "61"},
    "take-bool": {"true": "true", "false": "false"},
    "take-vec-i32": {"list": "[1, 2]", "ivector": "[1, 2]"},
    "take-map": {"hash": '[(\\"a\\", 1)]'},
    "take-set": {"hashset": "[1, 2]", },
    "take-pair": {"pair2": '(1, \\"x\\")'},
    "take-res": {"okres": "Ok(1)"},
    "pt-show": {"pt": "Pt { x: 1, y: 2 }"},
    "take-opt-i32": {"int": "Some(5)", "false": "None"},
    "take-opt-string": {"string": 'Some(\\"s\\")', "symbol": 'Some(\\"sym\\")', "false": "None"},
}
RECV = {"pt-x": {"pt": "I1"}}


def kind_case(fn, kind):
    acc = ACCEPTS.get(fn)
    src = "(%s %s)" % (fn, KIND_EXPRS[kind])
    made = 1 if kind in ("pt", "other") else 0     # make-pt / make-other bodies run first
    kw = dict(fn=fn, kind=kind)
    if acc is not None:
        if kind in acc:
            return mk("kind", [src, "#!calls"], ["ok:" + qs(acc[kind]), "ok:I%d" % (made + 1)], accepted=True, **kw)
    else:
        acc = RECV[fn]
        if kind in acc:
            return mk("kind", [src, "#!calls"], ["ok:" + acc[kind], "ok:I%d" % (made + 1)], accepted=True, **kw)
    # any error class is fine as long as the body did not run
    return mk("kind", [src, "#!calls"], [lambda o: o.startswith("err:"), "ok:I%d" % made], accepted=False, **kw)


# ---- arity
def arity_case(rng, k, n, which="plain"):
    args = [rng.randint(-1000, 1000) * 1000 + i for i in range(n)]
    if which == "plain":
        src = "(ar%d%s)" % (k, "".join(" %d" % a for a in args))
        if n == k:
            exp = "ok:(" + " ".join(script_canon(a) for a in args) + ")"
        else:
            exp = "err:ArityMismatch"
        return mk("arity", [src, "#!calls"], [exp, "ok:I%d" % (1 if n == k else 0)], k=k, n=n, args=args, which=which)
    # receiver functions: (pt-ar16 pt a1..a15) / (pt-ar4! pt a1 a2 a3); n counts the non-receiver arguments
    name, kk = ("pt-ar16", 15) if k == 16 else ("pt-ar4!", 3)
    src = "(%s (make-pt 77 0)%s)" % (name, "".join(" %d" % a for a in args))
    if n == kk:
        exp = "ok:(" + " ".join(script_canon(a) for a in [77] + args) + ")"
    else:
        exp = "err:ArityMismatch"
    return mk("arity", [src, "#!calls"], [exp, "ok:I%d" % (2 if n == kk else 1)], k=k, n=n, args=args, which=which)


# ---- floats
def f64_bits(x):
    return struct.unpack(">Q", struct.pack(">d", x))[0]


def f32_round_bits(x):
    """IEEE round-to-nearest-even narrowing of a double, as bits of the f32 (overflow -> inf)"""
    try:
        return struct.unpack(">I", struct.pack(">f", x))[0]
    except OverflowError:
        return 0x7f800000 if x > 0 else 0xff800000


F32_MAX = (2 - 2**-23) * 2**127


def float_cases(rng, n):
    out = []
    specials = [0.0, -0.0, 1.0, -1.5, 0.1, 1e300, -1e300, 5e-324, 1.7976931348623157e308, float("inf"), float("-inf"),
                3.4028234663852886e38, 3.4028235677973366e38, 3.5e38, 1e-46, 2.0**-149, 2.0**-150, 16777217.0, 2.0**63, 2.0**64]
    vals = specials + [struct.unpack(">d", struct.pack(">Q", rng.getrandbits(64)))[0] for _ in range(n)]
    for x in vals:
        if x != x:
            continue
        b = "%016x" % f64_bits(x)
        out.append(mk("float", ['(take-f64 (give-f64 "%s"))' % b], ["ok:" + qs(b)], ty="f64", bits=b, shape="roundtrip"))
        out.append(mk("float", ['(give-f64 "%s")' % b], ["ok:F" + b], ty="f64", bits=b, shape="give"))
        fb = f32_round_bits(x)
        finite_overflow = abs(x) != float("inf") and (fb & 0x7fffffff) == 0x7f800000
        # a finite double beyond the f32 range is out of range for an f32 parameter: the statement asks for an
        # error, not +-inf (known finding C20-F32-RANGE); everything else rounds to nearest
        out.append(mk("float", ['(take-f32 (give-f64 "%s"))' % b], ["err:ConversionError" if finite_overflow else "ok:" + qs("%08x" % fb)],
                      ty="f32", bits=b, shape="narrow", f32_overflow=finite_overflow))
        # f32 -> script -> f32 is exact
        f = struct.unpack(">f", struct.pack(">I", fb))[0]
        out.append(mk("float", ['(take-f32 (give-f32 "%08x"))' % fb], ["ok:" + qs("%08x" % fb)], ty="f32", bits="%08x" % fb, shape="roundtrip"))
        out.append(mk("float", ['(give-f32 "%08x")' % fb], ["ok:F%016x" % f64_bits(f)], ty="f32", bits="%08x" % fb, shape="give"))
    return out


# ---- strings, chars, bools, options, results, containers, structs
STRINGS = ["", "a", "hello world", "λx", "日本語", "🦀 crab", "tab\\there", "x" * 300, "ünï", "#t", "()"]
CODEPOINTS = [0x20, 0x41, 0x7e, 0xe9, 0x3bb, 0xd7ff, 0xe000, 0xfffd, 0x10000, 0x1f980, 0x10ffff]


def misc_cases():
    out = []
    for s in STRINGS:
        if "\\" in s:
            continue
        out.append(mk("string", ["(give-string %s)" % qs(s)], ["ok:" + qs(s)], value=s))
        out.append(mk("string", ["(equal? (give-string %s) %s)" % (qs(s), qs(s))], ["ok:#t"], value=s))
        out.append(mk("string", ["(string-length (take-string %s))" % qs(s)], [lambda o: o.startswith("ok:I")], value=s))
        out.append(mk("string", ['(take-vec-string (list %s "z"))' % qs(s)], [lambda o: o.startswith("ok:")], value=s))
    for n in CODEPOINTS:
        out.append(mk("char", ["(take-char (give-char %d))" % n], ["ok:" + qs("%x" % n)], value=n))
        out.append(mk("char", ["(char->integer (give-char %d))" % n], ["ok:I%d" % n], value=n))
    out.append(mk("bool", ["(list (give-bool \"true\") (give-bool \"false\") (take-bool #t) (take-bool #f))"],
                  ['ok:(#t #f "true" "false")']))
    # options
    for x in (0, 5, -1, 2**63 - 1, -2**63):
        out.append(mk("option", ['(give-opt-i64 "%d")' % x], ["ok:" + script_canon(x)], ty="Option<i64>", value="Some(%d)" % x, payload_falsy=False))
        out.append(mk("option", ['(take-opt-i64 (give-opt-i64 "%d"))' % x], ["ok:" + qs("Some(%d)" % x)], ty="Option<i64>", value="Some(%d)" % x, payload_falsy=False))
    out.append(mk("option", ['(give-opt-u64 "18446744073709551615")'], ["ok:B18446744073709551615"], ty="Option<u64>", value="Some(u64::MAX)", payload_falsy=False))
    out.append(mk("option", ['(give-opt-i64 "none")'], ["ok:#f"], ty="Option<i64>", value="None", payload_falsy=False))
    out.append(mk("option", ['(take-opt-i64 (give-opt-i64 "none"))'], ["ok:" + qs("None")], ty="Option<i64>", value="None", payload_falsy=False))
    out.append(mk("option", ["#!inject opt-i64 into none c20-x", "c20-x", "(take-opt-i64 c20-x)"], [None, "ok:#f", "ok:" + qs("None")],
                  ty="Option<i64>", value="None", via="IntoSteelVal", payload_falsy=False))
    out.append(mk("option", ["#!inject opt-i64 from none c20-x", "c20-x", "(take-opt-i64 c20-x)"], [None, "ok:#f", "ok:" + qs("None")],
                  ty="Option<i64>", value="None", via="From", payload_falsy=False))
    out.append(mk("option", ["#!inject opt-i64 from 42 c20-x", "(take-opt-i64 c20-x)"], [None, "ok:" + qs("Some(42)")],
                  ty="Option<i64>", value="Some(42)", via="From", payload_falsy=False))
    out.append(mk("option", ['(take-opt-bool (give-opt-bool "true"))'], ["ok:" + qs("Some(true)")], ty="Option<bool>", value="Some(true)", payload_falsy=False))
    out.append(mk("option", ['(take-opt-bool (give-opt-bool "none"))'], ["ok:" + qs("None")], ty="Option<bool>", value="None", payload_falsy=False))
    # the payload's own encoding is #f: the encoding of Option cannot tell it from None
    out.append(mk("option", ['(take-opt-bool (give-opt-bool "false"))'], ["ok:" + qs("Some(false)")], ty="Option<bool>", value="Some(false)", payload_falsy=True))
    out.append(mk("option", ['(take-opt-opt-i64 (give-opt-opt-i64 "some-none"))'], ["ok:" + qs("Some(None)")], ty="Option<Option<i64>>", value="Some(None)", payload_falsy=True))
    out.append(mk("option", ['(take-opt-opt-i64 (give-opt-opt-i64 "7"))'], ["ok:" + qs("Some(Some(7))")], ty="Option<Option<i64>>", value="Some(Some(7))", payload_falsy=False))
    # results
    out.append(mk("result", ['(give-res #t 7 "bad")'], ["ok:I7"]))
    out.append(mk("result", ['(give-res #f 7 "bad")', "#!calls"], ["err:Generic", "ok:I1"]))
    out.append(mk("result", ['(with-handler (lambda (e) (list "caught")) (give-res #f 7 "bad"))'], ['ok:("caught")']))
    out.append(mk("result", ["(take-res (Ok -9223372036854775808))"], ["ok:" + qs("Ok(-9223372036854775808)")]))
    out.append(mk("result", ['(take-res (Err "boo"))'], ["ok:" + qs('Err(\\"boo\\")')]))
    out.append(mk("result", ["(take-res (Err 5))", "#!calls"], ["err:ConversionError", "ok:I0"]))
    # containers
    out.append(mk("container", ['(take-map (give-map "a=1,b=-2,c=9223372036854775807"))'],
                  ["ok:" + qs('[(\\"a\\", 1), (\\"b\\", -2), (\\"c\\", 9223372036854775807)]')]))
    out.append(mk("container", ['(give-map "a=1,b=2")'], ['ok:#hash(["a" I1] ["b" I2])']))
    out.append(mk("container", ['(take-set (give-set "3,1,2,-9223372036854775808"))'], ["ok:" + qs("[-9223372036854775808, 1, 2, 3]")]))
    out.append(mk("container", ['(give-set "1,2")'], ["ok:#hashset(I1 I2)"]))
    out.append(mk("container", ['(give-pair 5 "x")'], ['ok:(I5 "x")']))
    out.append(mk("container", ['(take-pair (give-pair 5 "x"))'], ["ok:" + qs('(5, \\"x\\")')]))
    out.append(mk("container", ['(take-pair (list 1 "x" 3))', "#!calls"], ["err:ConversionError", "ok:I0"]))
    out.append(mk("container", ["(take-vec-vec-i64 (list (list 1 2) (list) (list 3)))"], ["ok:" + qs("[[1, 2], [], [3]]")]))
    out.append(mk("container", ['(take-vec-i64 (give-vec-i64 "1,2,3"))'], ["ok:" + qs("[1, 2, 3]")]))
    out.append(mk("container", ['(take-vec-u8 (list 1 2 256))', "#!calls"], ["err:ConversionError", "ok:I0"]))
    out.append(mk("container", ['(take-map-i32 (hash "k" 1 "j" 4294967296))', "#!calls"], ["err:ConversionError", "ok:I0"]))
    out.append(mk("container", ["(define c20-x (list 1 2 3))", "#!extract vec-u8 c20-x"], [None, "ok:[1, 2, 3]"]))
    out.append(mk("container", ["(define c20-x (list 1 2 300))", "#!extract vec-u8 c20-x"], [None, "err:ConversionError"]))
    out.append(mk("container", ['(define c20-x (list 1 "q"))', "#!extract pair c20-x"], [None, 'ok:(1, "q")']))
    out.append(mk("container", ['(define c20-x (hashset 4 5))', "#!extract set c20-x"], [None, "ok:[4, 5]"]))
    out.append(mk("container", ['(define c20-x (hash "p" 4))', "#!extract map c20-x"], [None, 'ok:[("p", 4)]']))
    out.append(mk("container", ["(mix3 255 \"m\" -2147483648)"], ["ok:" + qs('255|\\"m\\"|-2147483648')]))
    out.append(mk("container", ["(mix3 256 \"m\" 0)", "#!calls"], ["err:ConversionError", "ok:I0"]))
    out.append(mk("container", ["(mix3 1 \"m\" 2147483648)", "#!calls"], ["err:ConversionError", "ok:I0"]))
    # registered structs
    out.append(mk("struct", ["(define c20-p (make-pt 3 4))", "(pt-x c20-p)", "(pt-set-x! c20-p 10)", "(pt-x c20-p)", "(pt-sum c20-p)",
                             "(pt-show c20-p)", "#!extract pt c20-p", "(Pt? c20-p)", "(Pt? 5)", "(Other? c20-p)"],
                  [None, "ok:I3", "ok:I10", "ok:I10", "ok:I14", "ok:" + qs("Pt { x: 10, y: 4 }"), "ok:Pt { x: 10, y: 4 }", "ok:#t", "ok:#f", "ok:#f"]))
    out.append(mk("struct", ["(pt-set-x! (make-other 1) 5)", "#!calls"], ["err:ConversionError", "ok:I1"]))
    out.append(mk("struct", ["(pt-sum (make-other 1))", "#!calls"], ["err:ConversionError", "ok:I1"]))
    out.append(mk("struct", ["(pt-set-x! (make-pt 1 2) 9223372036854775808)", "#!calls"], ["err:ConversionError", "ok:I1"]))
    return out


# ---- lending
SLOT_KINDS = {1: "global", 2: "closure", 3: "list", 4: "vector", 5: "hash", 6: "box", 7: "continuation"}


def slot_read(s):
    if s == 0:
        return "*ext*"
    return {1: "c20-g1", 2: "(c20-c2)", 3: "(cadr c20-l3)", 4: "(vector-ref c20-v 4)", 5: "(hash-try-get c20-h 5)",
            6: "(unbox c20-b6)", 7: "c20-g7"}[s]


def slot_write(s, expr):
    return {1: "(set! c20-g1 %s)", 2: "(set! c20-c2 (let ([x %s]) (lambda () x)))", 3: "(set! c20-l3 (list 0 %s 0))",
            4: "(vector-set! c20-v 4 %s)", 5: "(set! c20-h (hash-insert c20-h 5 %s))", 6: "(set-box! c20-b6 %s)",
            7: "(set! c20-g7 (call/cc (lambda (k) (k %s))))"}[s] % expr


def gen_history(rng):
    """events: ('lend'|'script', [ops]); ops: ('stash', d) ('copy', s, d) ('forget', s) ('use', s, 'get'|('set', v))"""
    hist = []
    n_ev = rng.randint(2, 5)
    counter = [100]
    for e in range(n_ev):
        kind = "lend" if (e == 0 or rng.random() < 0.45) else "script"
        ops = []
        for _ in range(rng.randint(1, 7)):
            r = rng.random()
            if r < 0.3:
                ops.append(("stash", rng.randint(1, 7)))
            elif r < 0.45:
                ops.append(("copy", rng.randint(0, 7), rng.randint(1, 7)))
            elif r < 0.52:
                ops.append(("forget", rng.randint(1, 7)))
            else:
                if rng.random() < 0.5:
                    ops.append(("use", rng.randint(0, 7), "get"))
                else:
                    counter[0] += 1
                    ops.append(("use", rng.randint(0, 7), ("set", counter[0])))
        hist.append((kind, ops))
    return hist


def lend_oracle(hist):
    """The property, directly: a use succeeds iff it happens during a lending call through a handle that
    this very call created.  Returns (bits, final host value)."""
    slots = {}
    gen = 0
    host = 10
    bits = []
    for kind, ops in hist:
        cur = None
        if kind == "lend":
            gen += 1
            cur = gen
            slots[0] = cur
        for op in ops:
            if op[0] == "stash":
                if 0 in slots:
                    slots[op[1]] = slots[0]
                else:
                    slots.pop(op[1], None)
            elif op[0] == "copy":
                if op[1] in slots:
                    slots[op[2]] = slots[op[1]]
                else:
                    slots.pop(op[2], None)
            elif op[0] == "forget":
                slots.pop(op[1], None)
            else:
                ok = cur is not None and slots.get(op[1]) == cur
                bits.append("1" if ok else "0")
                if ok and op[2] != "get":
                    host = op[2][1]
        slots.pop(0, None)
    return "".join(bits), host


def lend_units(hist):
    units = [RESET]
    for kind, ops in hist:
        stmts = []
        for op in ops:
            if op[0] == "stash":
                stmts.append(slot_write(op[1], "*ext*"))
            elif op[0] == "copy":
                stmts.append(slot_write(op[2], slot_read(op[1])))
            elif op[0] == "forget":
                stmts.append(slot_write(op[1], "#f"))
            else:
                if op[2] == "get":
                    stmts.append("(c20-note (c20-use-get %s))" % slot_read(op[1]))
                else:
                    stmts.append("(c20-note (c20-use-set %s %d))" % (slot_read(op[1]), op[2][1]))
        body = "(begin %s)" % " ".join(stmts)
        units.append(("#!lend " + body) if kind == "lend" else body)
    units.append("(reverse c20-log)")
    units.append("#!extval")
    return units


def lend_model_expr(hist):
    def op_coq(op):
        if op[0] == "stash":
            return "Stash %d" % op[1]
        if op[0] == "copy":
            return "Copy %d %d" % (op[1], op[2])
        if op[0] == "forget":
            return "Forget %d" % op[1]
        return "Use %d" % op[1]
    evs = []
    for kind, ops in hist:
        evs.append("%s [%s]" % ("ELend" if kind == "lend" else "EScript", "; ".join(op_coq(o) for o in ops)))
    return "model_lend [%s]" % "; ".join(evs)


def lend_case(hist):
    bits, host = lend_oracle(hist)
    exp_log = "ok:(" + " ".join("I" + b for b in bits) + ")"
    units = lend_units(hist)
    expect = [None] * (len(units) - 2) + [exp_log, "ok:I%d" % host]
    return mk("lend", units, expect, history=[[k, [list(map(str, o)) for o in ops]] for k, ops in hist], bits=bits, _hist=hist)


LEND_CORPUS = [
    [("lend", [("use", 0, "get"), ("stash", 1), ("stash", 2), ("stash", 3), ("stash", 4), ("stash", 5), ("stash", 6), ("stash", 7),
               ("use", 1, "get"), ("use", 7, ("set", 55))]),
     ("script", [("use", 0, "get"), ("use", 1, "get"), ("use", 2, ("set", 66)), ("use", 3, "get"), ("use", 4, "get"), ("use", 5, "get"),
                 ("use", 6, ("set", 67)), ("use", 7, "get")]),
     ("lend", [("use", 1, ("set", 68)), ("use", 6, "get"), ("use", 0, "get"), ("copy", 1, 2), ("use", 2, "get")]),
     ("script", [("copy", 3, 1), ("use", 1, "get")])],
]


def ro_cases():
    """read-only lending (run_thunk_with_ro_reference): same scoping"""
    return [mk("lend-ro", [RESET, "#!lendro (begin (set! c20-g1 *ext*) (set! c20-b6 (box *ext*)) (c20-use-peek *ext*))",
                           "(c20-use-peek c20-g1)", "(c20-use-peek (unbox c20-b6))", "(c20-use-get c20-g1)",
                           "#!lendro (list (c20-use-peek c20-g1) (c20-use-peek *ext*))"],
               [None, "ok:I1", "ok:I0", "ok:I0", "ok:I0", "ok:(I0 I1)"])]


# ------------------------------------------------------------------------------------------------
# known-finding class predicates (decidable over the canonical case description)
# ------------------------------------------------------------------------------------------------
def option_falsy_payload(case, params):
    """Option<T> whose Some payload is itself encoded as #f (Some(false), Some(None))."""
    return case.get("family") == "option" and case.get("payload_falsy") is True


def f32_out_of_range(case, params):
    """a finite double whose magnitude exceeds f32::MAX handed to an f32 parameter"""
    return case.get("family") == "float" and case.get("shape") == "narrow" and case.get("f32_overflow") is True


# ------------------------------------------------------------------------------------------------
# run
# ------------------------------------------------------------------------------------------------
COQ_HEADER = ("From SV Require Import c20.Types_C20 gen.Gen_C20 c20.Model_C20.\n"
              "From Coq Require Import ZArith List String.\nImport ListNotations.\nOpen Scope Z_scope.")


def public(case):
    return {k: v for k, v in case.items() if not k.startswith("_")}


def build_cases(ck, table):
    rng = ck.rng
    thorough = ck.tier == "thorough"
    cases = []
    model = []      # (case index, coq expr, how to read the model's answer)
    # -- integers: every type x every boundary value directly, plus other shapes
    for t in HARNESS_INTS:
        extra = [rng.randint(-2**70, 2**70) for _ in range(40 if thorough else 6)] + \
                [rng.randint(*rng_of(t)) for _ in range(40 if thorough else 6)]
        # witnesses a broken table row suggests: just outside / far outside the range, sign flips
        lo, hi = rng_of(t)
        sugg = [hi + 1, lo - 1, 2**INT_TYPES[t][1], -1, 2**63, 2**64 - 1, hi, lo]
        for z in dict.fromkeys(BOUNDARY + sugg + extra):
            c = take_case(t, z, "direct")
            model.append((len(cases), 'model_from "%s" (%d)' % (t, z), "from"))
            cases.append(c)
            for sh in (INT_SHAPES[1:] if thorough else [rng.choice(INT_SHAPES[1:])]):
                cases.append(take_case(t, z, sh))
    for t in HARNESS_INTS + ["u128"]:
        lo, hi = rng_of(t)
        xs = [z for z in BOUNDARY if lo <= z <= hi] + [lo, hi, hi - 1, lo + 1] + [rng.randint(lo, hi) for _ in range(30 if thorough else 5)]
        for x in dict.fromkeys(xs):
            for sh in (GIVE_SHAPES if thorough else ["direct", rng.choice(GIVE_SHAPES[1:])]):
                c = give_case(t, x, sh)
                if sh == "direct":
                    model.append((len(cases), 'model_into "%s" (%d)' % (t, x), "into"))
                cases.append(c)
    # -- wrong kinds
    for fn in list(ACCEPTS) + list(RECV):
        for kind in KIND_EXPRS:
            cases.append(kind_case(fn, kind))
    # -- arity
    for k in range(0, 17):
        for n in sorted({k, max(0, k - 1), k + 1, 0, 17 if thorough else k}):
            c = arity_case(rng, k, n)
            if k >= 1:
                model.append((len(cases), "model_arity %d [%s]" % (k, "; ".join("(%d)" % a for a in c["args"])), "arity"))
            cases.append(c)
    for k, kk in ((16, 15), (4, 3)):
        for n in (kk, kk - 1, kk + 1):
            c = arity_case(rng, k, n, which="recv")
            model.append((len(cases), "model_self_arity %d [%s]" % (kk + 1, "; ".join("(%d)" % a for a in c["args"])), "self_arity"))
            cases.append(c)
    # -- floats, misc
    cases += float_cases(rng, 300 if thorough else 40)
    cases += misc_cases()
    # -- lending
    hists = list(LEND_CORPUS) + [gen_history(rng) for _ in range(3000 if thorough else 250)]
    for h in hists:
        c = lend_case(h)
        model.append((len(cases), lend_model_expr(h), "lend"))
        cases.append(c)
    cases += ro_cases()
    return cases, model


def model_expected(case, how, got):
    """translate the model's answer into the observable of the case's first interesting unit"""
    if how == "from":
        return ("ok:" + qs(got[3:])) if got.startswith("ok:") else "err:ConversionError"
    if how == "into":
        return "ok:" + got
    if how in ("arity", "self_arity"):
        if got.startswith("call:"):
            vals = [int(x) for x in got[5:].split(",") if x]
            if how == "self_arity":
                vals = [77] + vals[1:]
            return "ok:(" + " ".join(script_canon(v) for v in vals) + ")"
        return {"arity": "err:ArityMismatch", "conv": "err:ConversionError"}.get(got, got)
    if how == "lend":
        return "ok:(" + " ".join("I" + b for b in got) + ")"
    raise ValueError(how)


def key_unit(case, how):
    return -2 if how == "lend" else 0


def check_case(ck, case, res, stats):
    """compare every unit's observable with the oracle's expectation; returns list of mismatches"""
    bad = []
    exp = case["_expect"]
    got = [obs(r) for r in (res or [])]
    for i, e in enumerate(exp):
        g = got[i] if i < len(got) else "missing"
        if e is None:
            if g.startswith(("P:", "CRASH", "HANG", "missing")):
                bad.append((i, "no crash", g))
            continue
        if callable(e):
            if not e(g):
                bad.append((i, "<predicate>", g))
        elif e != g:
            bad.append((i, e, g))
    return bad, got


def run(ck):
    ck.cov["trusted_base"] = [
        "Coq 8.16.1 kernel, coqc; vm_compute for model evaluation",
        "translator in checks/c20.py (regex/brace parser of the macro definitions and invocation lists of primitives.rs, "
        "register_fn.rs, and of the lending functions of gc.rs / engine.rs)",
        "hand-written model coq/c20/Model_C20.v (integer conversions, Option encoding, wrapper index discipline, lending state machine)",
        "correspondence harness harness/src/bin/c20.rs (host functions, directives) and canonical rendering in harness/src/lib.rs",
        "oracle: range specification on python ints / IEEE narrowing via struct.pack / the scoping rule evaluated on the history",
        "rustc's semantics of `as`, TryFrom between integer types, num-bigint TryFrom<&BigInt>; 64-bit target (isize = i64)",
    ]
    ck.assumptions = [
        "script integers are canonical (fixnum iff it fits isize): property C10",
        "the wrapper macros' generated code is represented by its index tables plus syntactic shape counts; the code itself "
        "is exercised differentially over all arities 0..16 and receiver kinds",
        "lending: one lent reference per call, no nested lending calls, single thread (a native thread still holding an "
        "upgraded strong pointer when the call returns is outside the model and the tests)",
        "floats, strings, chars, containers, Result and registered structs are covered by the differential runs only",
    ]
    table, opt, wrappers, wfacts, lend, _ = translate(ck)
    proved = ck.proof_stage(["c20"], ["c20/Properties_C20"], "c20/Pins_C20.v")

    ck.log("proof stage done: %s" % proved)
    ck.harness_build(["c20"])
    ck.log("harness built")
    cases, model = build_cases(ck, table)
    results = ck.eval_cases([c["units"] for c in cases], prelude=PRELUDE, binary="c20", batch=120)
    ck.log("engine evaluated %d cases" % len(cases))
    model_out = {}
    try:
        vals = ck.coq_eval(COQ_HEADER, [e for _, e, _ in model])
        for (ci, _, how), v in zip(model, vals):
            model_out[ci] = (how, v)
    except TieBroken as e:
        ck.violation("model evaluation failed: %s" % e, {"tie": str(e)}, no_input=True, tag="tie")

    ck.log("model evaluated %d expressions" % len(model_out))
    seen = set()
    nontrivial = set()
    fam_hist = {}
    fam_bad = {}
    disagree = 0
    for ci, (case, res) in enumerate(zip(cases, results)):
        ck.cov["evaluations"] += 1
        fam = case["family"]
        fam_hist[fam] = fam_hist.get(fam, 0) + 1
        bad, got = check_case(ck, case, res, None)
        pub = public(case)
        pub["observed"] = got
        # coverage key
        if fam == "int":
            z = int(case["value"])
            key = (fam, case["ty"], case["shape"], case["direction"], case["in_range"], "big" if abs(z) > 2**31 else "small")
            nt = abs(z) > 2**31 or not case["in_range"]
        elif fam == "kind":
            key = (fam, case["fn"], case["kind"])
            nt = not case["accepted"]
        elif fam == "arity":
            key = (fam, case["k"], case["n"] - case["k"] if case["which"] == "plain" else case["n"], case["which"])
            nt = True
        elif fam == "lend":
            key = (fam, case["bits"], tuple(k for k, _ in case["_hist"]))
            nt = "1" in case["bits"] and "0" in case["bits"]
        elif fam == "float":
            key = (fam, case["ty"], case["shape"], case["bits"][:3])
            nt = True
        else:
            key = (fam, case["units"][-1][:60])
            nt = True
        if key not in seen:
            seen.add(key)
            if nt:
                nontrivial.add(key)
        if ci % 211 == 0 or (fam == "lend" and ci % 97 == 0):
            ck.sample(pub)
        if bad:
            i, want, g = bad[0]
            fam_bad[fam] = fam_bad.get(fam, 0) + 1
            if fam_bad[fam] > 4 and ck.classify(pub) is None:
                continue        # report at most four failing inputs per family (all are counted in evidence)
            ck.failing_input("%s case %s: unit %d `%s` gave %s, the specification requires %s" % (
                fam, {k: v for k, v in pub.items() if k in ("ty", "value", "shape", "fn", "kind", "k", "n", "which", "bits")},
                i, case["units"][i][:200], g, want), pub, tag=fam)
        elif ci in model_out:
            how, v = model_out[ci]
            me = model_expected(case, how, v)
            ku = key_unit(case, how)
            if me != got[ku]:
                disagree += 1
                pub["model"] = v
                ck.violation("model/implementation correspondence broken (%s): model says %s, engine %s on `%s`" % (
                    how, me, got[ku], case["units"][ku][:200]), {"case": pub, "correspondence": "c20.Model_C20 vs engine"},
                    no_input=True, tag="corr")
    ck.cov["distinct_nontrivial"] = len(nontrivial)
    ck.cov["rule"] = ("distinct = distinct (family, type/function, shape, direction, in-range?, magnitude class) for integer cases over the "
                      "boundary lattice 0, +-1, +-2^k+-1 (k in 7,8,15,16,31,32,63,64,127,128), type limits, bignums and random values through "
                      "shapes %s / %s; (function, argument kind) for wrong-kind cases; (arity, supplied-declared) for arity cases; "
                      "(outcome bit string, event kinds) for lending histories. non-trivial = out of range or |value| > 2^31 / rejected kind / "
                      "any arity case / a history with both a succeeding and a failing use / float and container cases"
                      % (INT_SHAPES, GIVE_SHAPES))
    ck.cov["family_histogram"] = fam_hist
    ck.cov["failing_inputs_by_family"] = fam_bad
    ck.cov["model_vs_impl_disagreements"] = disagree
    ck.cov["model_evaluations"] = len(model_out)
    ck.cov["conversion_table"] = {t: [d["into"], d["from"]] for t, d in table.items() if d["into"] or d["from"]}
    if not proved and not ck.violations:
        ck.unproved()
    elif not proved:
        ck.notes.append("proof obligations broken: " + "; ".join(ck.proof_failures)[:1500])


def replay(ck, path):
    obj = json.load(open(path))
    case = obj.get("case")
    if not case or "units" not in case:
        print(json.dumps(obj, indent=1)[:4000])
        return
    ck.harness_build(["c20"])
    res = ck.eval_cases([case["units"]], prelude=PRELUDE, binary="c20")[0]
    got = [obs(r) for r in res]
    for u, g, o in zip(case["units"], got, case.get("observed", [])):
        print("%s\n   now: %s\n   then: %s" % (u[:300], g, o))
    if got == case.get("observed"):
        ck.failing_input("replay: same behaviour as recorded: %s" % obj.get("what", ""), case, tag="replay")
