"""C12 — reading is total and inverse to writing (DESIGN.md section 4, C12).

(P) coq/c12: character-level model of lexer.rs + the flat (keep_lists) parser + the external writer; theorems pinned
    in Pins_C12.v.
(C) three ties, all against harness/src/bin/c12.rs:
    (a) texts (corpus, grammar-aware mutations of written data / programs, random code points) ->
        token stream (kinds, payloads, spans) and `read` results (data, offsets, error class) of the implementation
        vs the model's `run_lex` / `run_read`; panics / hangs / spans outside the text are failing inputs;
    (b) generated data built WITHOUT the reader -> engine `write` -> text == model `write`; engine `read` of that
        text `equal?` to the original (the property oracle, evaluated on the implementation);
    (c) print_parse_ast: parse a generated program, print it (Display and to_pretty), parse again, compare modulo spans.
"""
import json
import os
import re

from checks import common
from checks.common import TieBroken

HEADER = ("From SV Require Import c12.Model_C12.\nFrom Coq Require Import NArith ZArith List String Bool.\n"
          "Import ListNotations.\nOpen Scope bool_scope.\nOpen Scope N_scope.\n")

# ------------------------------------------------------------------------------------------------ text helpers
WS = set([9, 10, 11, 12, 13, 32, 133, 160, 5760, 8232, 8233, 8239, 8287, 12288] + list(range(8192, 8203)))
SPECIAL = set(ord(c) for c in "()[]{}\"'`;,|\\")


def coq_text(s):
    """python str -> Coq term of type text (list N)"""
    return "[" + "; ".join(str(ord(c)) for c in s) + "]"


def unshow(s):
    """inverse of the model's show_text: \\x<hex>; escapes -> characters"""
    return re.sub(r"\\x([0-9a-f]+);", lambda m: chr(int(m.group(1), 16)), s)


def show_text(s):
    out = []
    for ch in s:
        c = ord(ch)
        if 33 <= c <= 126 and c not in (92, 34):
            out.append(ch)
        else:
            out.append("\\x%x;" % c)
    return "".join(out)


_STR = re.compile(r'"((?:[^"\\]|\\.)*)"')


def _harness_unesc(body):
    # harness/src/lib.rs esc(): \" \\ \x<hex>;
    out = []
    i = 0
    while i < len(body):
        if body[i] == "\\":
            if body[i + 1] == "x":
                j = body.index(";", i)
                out.append(chr(int(body[i + 2:j], 16)))
                i = j + 1
            else:
                out.append(body[i + 1])
                i += 2
        else:
            out.append(body[i])
            i += 1
    return "".join(out)


def norm_canon(c):
    """harness canon(value) -> the model's show_datum syntax (numbers by value, floats/complex opaque)"""
    parts = []
    pos = 0
    for m in _STR.finditer(c):
        parts.append(("o", c[pos:m.start()]))
        parts.append(("s", m.group(1)))
        pos = m.end()
    parts.append(("o", c[pos:]))
    out = []
    for k, p in parts:
        if k == "s":
            out.append('"' + show_text(_harness_unesc(p)) + '"')
        else:
            p = re.sub(r"\bB(-?\d+)", r"I\1", p)
            p = re.sub(r"\bQ(-?\d+/\d+)", r"R\1", p)
            p = re.sub(r"\bF[0-9a-f]{16}\b", "?", p)
            p = re.sub(r"C\([^()]*\)", "?", p)
            p = re.sub(r"<convert-error [A-Za-z]+>", "<bad>", p)
            out.append(p)
    return "".join(out)


# ------------------------------------------------------------------------------------------------ data (tie b)
# python representation: ("int", z) ("rat", n, d) ("bool", b) ("char", cp) ("str", [cps]) ("sym", [cps])
# ("list", [..]) ("pair", a, d) ("vec", [..]) ("bytes", [..]) ("flo", text)

def valid_scalar(n):
    return n < 0xD800 or 0xDFFF < n < 0x110000


CP_POOL = ([0, 7, 8, 9, 10, 13, 27, 31, 32, 33, 34, 35, 39, 40, 41, 44, 46, 47, 48, 57, 59, 64, 65, 90, 91, 92, 93, 96,
            97, 102, 110, 117, 120, 122, 123, 124, 125, 126, 127, 128, 133, 159, 160, 173, 255, 769, 955, 1632, 5760,
            8192, 8203, 8232, 8233, 8239, 12288, 55295, 57344, 65279, 65533, 65535, 65536, 128512, 917760, 1114111])


def gen_cp(rng):
    k = rng.random()
    if k < 0.45:
        return rng.randint(33, 126)
    if k < 0.85:
        return rng.choice(CP_POOL)
    while True:
        n = rng.choice([rng.randint(0, 0x2FF), rng.randint(0, 0xFFFF), rng.randint(0, 0x10FFFF)])
        if valid_scalar(n):
            return n


PLAIN_FIRST = [c for c in range(33, 127) if c not in SPECIAL and chr(c) not in "#+-.0123456789"]
PLAIN_REST = [c for c in range(33, 127) if c not in SPECIAL]
ALIASES = {"defn", "fn", "\u03bb", "#%define", "#%plain-lambda", "."}
QUOTE_HEADS = ["quote", "quasiquote", "unquote", "unquote-splicing", "syntax"]
BIG = [2**31 - 1, 2**31, 2**62, 2**63 - 1, 2**63, 2**64, 10**30, 10**6, 999999, 1000000, 255, 256]


def gen_sym(rng, weird):
    if not weird:
        n = rng.randint(1, 8)
        s = [rng.choice(PLAIN_FIRST)] + [rng.choice(PLAIN_REST + [955, 8364]) for _ in range(n - 1)]
        if rng.random() < 0.15:
            s = [ord(c) for c in rng.choice(["if", "define", "lambda", "quote", "let", "begin", "set!", "x->y", "a.b",
                                             "list?", "%plain-let", "return!", "syntax-rules", "e", "i", "nan", "inf"])]
        return s
    k = rng.random()
    if k < 0.25:
        return [ord(c) for c in rng.choice(["", "a b", "(", ")", "1", "-1", "1/2", "+a", ".", "..", "...", "+", "-",
                                            "1+", "-x", "#t", "#f", "#\\a", "|", "a|b", "a;b", "\"", "a\\", "'a", "`a",
                                            ",a", "#x10", "1e5", "+inf.0", "+i", "defn", "fn", "\u03bb", "#%define",
                                            "#%foo", "#:kw", "#", "##", "#|", "#;", "#<x", "a\nb", "a\tb", "{", "}",
                                            "[", "]", "@", "a@b", "->", "-->x", "+5x", ".5", ".a", "5.", "-.", "#true"])]
    n = rng.randint(1, 6)
    return [gen_cp(rng) for _ in range(n)]


def gen_int(rng):
    k = rng.random()
    if k < 0.5:
        return rng.randint(-1000, 1000)
    if k < 0.8:
        return (rng.choice(BIG) + rng.choice([0, 1, -1])) * rng.choice([1, -1])
    return rng.getrandbits(rng.choice([40, 64, 70, 130, 300])) * rng.choice([1, -1])


def gen_datum(rng, depth, opts):
    k = rng.random()
    if depth <= 0 or k < 0.45:
        a = rng.random()
        if a < 0.22:
            return ("int", gen_int(rng))
        if a < 0.30:
            from fractions import Fraction
            d = rng.choice([2, 3, 7, 10, 2**31, 2**32 + 1, 10**20])
            f = Fraction(gen_int(rng), d)
            return ("int", f.numerator) if f.denominator == 1 else ("rat", f.numerator, f.denominator)
        if a < 0.36:
            return ("bool", rng.random() < 0.5)
        if a < 0.52:
            return ("char", gen_cp(rng))
        if a < 0.72:
            return ("str", [gen_cp(rng) for _ in range(rng.choice([0, 1, 2, 3, 5, 9]))])
        if a < 0.94:
            return ("sym", gen_sym(rng, opts.get("weird_syms") and rng.random() < 0.5))
        if opts.get("floats"):
            return ("flo", rng.choice(["1.5", "-0.25", "1e21", "1e-7", "0.1", "123456.789", "(/ 1.0 3.0)",
                                       "(sqrt 2.0)", "-0.0", "1e300", "5e-324", "(/ 1.0 0.0)", "(/ -1.0 0.0)",
                                       "(* 1.0 %d)" % rng.randint(-10**6, 10**6), "(/ %d.0 %d.0)" % (rng.randint(1, 999), rng.randint(1, 999))]))
        return ("int", gen_int(rng))
    n = rng.choice([0, 1, 1, 2, 2, 3, 4])
    if k < 0.70:
        return ("list", [gen_datum(rng, depth - 1, opts) for _ in range(n)])
    if k < 0.78:
        # quotation forms
        h = rng.choice(QUOTE_HEADS if opts.get("unquote_heads") else ["quote", "quasiquote", "syntax"])
        return ("list", [("sym", [ord(c) for c in h]), gen_datum(rng, depth - 1, opts)])
    if k < 0.86:
        d = gen_datum(rng, depth - 1, opts)
        while d[0] == "list":           # (cons x <list>) is a list, not a pair
            d = gen_datum(rng, 0, opts)
        return ("pair", gen_datum(rng, depth - 1, opts), d)
    if k < 0.95:
        return ("vec", [gen_datum(rng, depth - 1, opts) for _ in range(n)])
    return ("bytes", [rng.choice([0, 1, 9, 10, 15, 16, 127, 128, 255, rng.randint(0, 255)]) for _ in range(n)])


def steel_int(z):
    if abs(z) < 10**6:
        return str(z)
    s = -1 if z < 0 else 1
    z = abs(z)
    chunks = []
    while z:
        chunks.append(z % 10**6)
        z //= 10**6
    e = str(chunks.pop())
    while chunks:
        e = "(+ (* %s 1000000) %d)" % (e, chunks.pop())
    return e if s > 0 else "(- %s)" % e


def steel_text(cps_):
    return "(string %s)" % " ".join("(integer->char %d)" % c for c in cps_) if cps_ else "(string)"


def steel_build(d):
    """Steel expression that BUILDS the datum with constructors (never through the reader's datum syntax)"""
    t = d[0]
    if t == "int":
        return steel_int(d[1])
    if t == "rat":
        return "(/ %s %s)" % (steel_int(d[1]), steel_int(d[2]))
    if t == "bool":
        return "#t" if d[1] else "#f"
    if t == "char":
        return "(integer->char %d)" % d[1]
    if t == "str":
        return steel_text(d[1])
    if t == "sym":
        return "(string->symbol %s)" % steel_text(d[1])
    if t == "list":
        return "(list %s)" % " ".join(steel_build(x) for x in d[1]) if d[1] else "(list)"
    if t == "pair":
        return "(cons %s %s)" % (steel_build(d[1]), steel_build(d[2]))
    if t == "vec":
        return "(immutable-vector %s)" % " ".join(steel_build(x) for x in d[1]) if d[1] else "(immutable-vector)"
    if t == "bytes":
        return "(bytes %s)" % " ".join(str(b) for b in d[1]) if d[1] else "(bytes)"
    if t in ("flo", "num"):
        return d[1]
    raise ValueError(t)


def coq_datum(d):
    t = d[0]
    cl = lambda l: "[" + "; ".join(str(c) for c in l) + "]"
    if t == "int":
        return "DInt (%d)" % d[1]
    if t == "rat":
        return "DRat (%d) (%d)" % (d[1], d[2])
    if t == "bool":
        return "DBool %s" % ("true" if d[1] else "false")
    if t == "char":
        return "DChar %d" % d[1]
    if t == "str":
        return "DStr %s" % cl(d[1])
    if t == "sym":
        return "DSym %s" % cl(d[1])
    if t == "list":
        return "DList [%s]" % "; ".join(coq_datum(x) for x in d[1])
    if t == "pair":
        return "DPair (%s) (%s)" % (coq_datum(d[1]), coq_datum(d[2]))
    if t == "vec":
        return "DVec [%s]" % "; ".join(coq_datum(x) for x in d[1])
    if t == "bytes":
        return "DBytes %s" % cl(d[1])
    if t == "flo":
        return "DOpaque"
    raise ValueError(t)


def walk(d):
    yield d
    if d[0] in ("list", "vec"):
        for x in d[1]:
            yield from walk(x)
    elif d[0] == "pair":
        yield from walk(d[1])
        yield from walk(d[2])


def height(d):
    if d[0] in ("list", "vec"):
        return 1 + max([height(x) for x in d[1]] + [0])
    if d[0] == "pair":
        return 1 + max(height(d[1]), height(d[2]))
    return 1


def sym_plain(cps_):
    """mirror of Coq sym_plain (Proofs_C12.v): a name the writer can emit bare and the reader gives back"""
    if not cps_:
        return False
    if any(c in SPECIAL or c in WS for c in cps_):
        return False
    if chr(cps_[0]) in "#+-.0123456789":
        return False
    return "".join(map(chr, cps_)) not in ALIASES


def case_syms(case):
    return [x[1] for x in walk(tuple_datum(case["datum"])) if x[0] == "sym"]


def tuple_datum(j):
    """json round trip turns tuples into lists"""
    if isinstance(j, (list, tuple)) and j and isinstance(j[0], str):
        t = j[0]
        if t in ("list", "vec"):
            return (t, [tuple_datum(x) for x in j[1]])
        if t == "pair":
            return (t, tuple_datum(j[1]), tuple_datum(j[2]))
        return tuple(j)
    return j


# ------------------------------------------------------------------------------------------------ known classes
def symbol_needs_bars(case, params):
    """F8: the datum contains a symbol whose bare name does not read back as that symbol"""
    if case.get("kind") != "roundtrip":
        return False
    return any(not sym_plain(s) for s in case_syms(case))


def nesting_above_writer_limit(case, params):
    """F14: nesting depth above the writer's limit (format_with_cycles prints `...` below depth 128)"""
    return case.get("kind") == "roundtrip" and height(tuple_datum(case["datum"])) > params.get("limit", 128)


def unquote_head_renamed(case, params):
    """a list headed by unquote / unquote-splicing with a list after the head is read back with the head renamed"""
    if case.get("kind") != "roundtrip":
        return False
    for x in walk(tuple_datum(case["datum"])):
        if x[0] == "list" and len(x[1]) >= 2 and x[1][0][0] == "sym" and \
                "".join(map(chr, x[1][0][1])) in ("unquote", "unquote-splicing") and \
                any(y[0] in ("list", "vec", "pair", "bytes") or (y[0] == "list") for y in x[1][1:]):
            return True
    return False


def reader_debug_assert_after_error(case, params):
    """a quote shorthand in front of an unfinished / erroneous (quote ..) style form trips debug_assert!(matches!(popped, ..))"""
    return case.get("kind") == "reader-panic" and "matches!(popped, ParsingContext::" in case.get("panic", "") and \
        any(c in case.get("text", "") for c in "'`,")


def datum_comment_counter_overflow(case, params):
    """more than 255 `#;` inside one list overflow Frame.comment (u8)"""
    return case.get("kind") == "reader-panic" and "attempt to add with overflow" in case.get("panic", "") and \
        case.get("text", "").count("#;") >= 256


def ast_printer_does_not_escape(case, params):
    """print_parse_ast: Display/to_pretty of a string literal containing `\"` or `\\` (or a char/ident needing escapes)"""
    if case.get("kind") != "print-parse":
        return False
    return bool(case.get("needs_escape"))


def ast_printer_drops_rest_args(case, params):
    """print_parse_ast: a lambda / define with a rest parameter ((a . r), or a bare symbol) is printed with a plain list"""
    if case.get("kind") != "print-parse":
        return False
    t = case.get("text", "")
    return bool(re.search(r"\(\s*(define|defn|lambda|fn|\u03bb|#%plain-lambda)\s*(\([^()]*\s\.\s[^()]*\)|\(\([^()]*\)[^()]*\s\.\s[^()]*\))", t)
                or re.search(r"\(\s*(lambda|fn|\u03bb|#%plain-lambda)\s+[^\s()]", t))


def ast_printer_raw_unquote(case, params):
    """print_parse_ast: an unquote inside a quasiquote is printed as (#%unquote x); re-parsing keeps x as quoted data"""
    if case.get("kind") != "print-parse":
        return False
    t = case.get("text", "")
    return "," in t or "unquote" in t


NEGZERO = re.compile(r"-0\.0(?![0-9eE])")


def negative_zero_sign_lost(case, params):
    """the text -0.0 (alone or as a part of a complex number) reads back as 0.0: the datum read is equal? to the one written,
    only the sign of zero is lost (same root as C10-F34)"""
    if case.get("kind") != "number-roundtrip":
        return False
    tags = case.get("tags", [])
    # with a NaN part equal? is false anyway and the check compares the texts: the lost sign shows up there
    if not (case.get("mode") == "rewrite" or (case.get("mode") == "roundtrip" and "nan" in tags and "negzero" in tags)):
        return False
    w, r = case.get("written", ""), case.get("rewritten", "")
    return w != r and bool(NEGZERO.search(w)) and NEGZERO.sub("0.0", w) == NEGZERO.sub("0.0", r)


# numbers that are outside the Coq model (doubles, complex): python leaf ("num", <steel expr that BUILDS it>, [tags])
DOUBLES = [("0.0", []), ("(- 0.0)", ["negzero"]), ("1.0", []), ("-3.0", []), ("(exact->inexact 12345678901234567890)", []),
           ("0.1", []), ("1e21", []), ("1e-7", []), ("5e-324", []), ("1.7976931348623157e308", []), ("-1.5", []),
           ("123456.789", []), ("(/ 1.0 3.0)", []), ("(sqrt 2.0)", []), ("1e22", []), ("(- 1e300)", []),
           ("(/ 1.0 0.0)", ["inf"]), ("(/ -1.0 0.0)", ["inf"]), ("(/ 0.0 0.0)", ["nan"]), ("(- (/ 0.0 0.0))", ["nan"])]
PARTS = {
    "int": (["0", "1", "7", "12", "4611686018427387904", "(* 10000000000000 1000000000000)"], []),
    "rat": (["(/ 1 2)", "(/ 3 4)", "(/ 100000000000000000001 3)"], []),
    "dbl": (["1.5", "0.0", "0.1", "1e21", "5e-324", "2.0"], []),
    "inf": (["(/ 1.0 0.0)"], ["inf"]),
    "nan": (["(/ 0.0 0.0)"], ["nan"]),
}


def gen_part(rng, kind, neg):
    exprs, tags = PARTS[kind]
    e = rng.choice(exprs)
    tags = list(tags)
    if neg:
        if e == "0.0":
            tags.append("negzero")
        e = "(- %s)" % e
    return e, tags


def complex_grid(rng):
    """every combination of {exact integer, exact rational, double, inf, nan} x sign for the real and the imaginary part"""
    out = []
    for rk in PARTS:
        for rn in (False, True):
            for ik in PARTS:
                for inn in (False, True):
                    re_, t1 = gen_part(rng, rk, rn)
                    im_, t2 = gen_part(rng, ik, inn)
                    out.append(("num", "(make-rectangular %s %s)" % (re_, im_), sorted(set(t1 + t2 + ["complex"]))))
    return out


def gen_number_leaf(rng):
    k = rng.random()
    if k < 0.45:
        e, t = rng.choice(DOUBLES)
        return ("num", e, list(t))
    if k < 0.9:
        kinds = list(PARTS)
        re_, t1 = gen_part(rng, rng.choice(kinds), rng.random() < 0.5)
        im_, t2 = gen_part(rng, rng.choice(kinds), rng.random() < 0.5)
        return ("num", "(make-rectangular %s %s)" % (re_, im_), sorted(set(t1 + t2 + ["complex"])))
    return ("int", gen_int(rng))


def gen_number_datum(rng, depth):
    """numbers of every kind nested in lists / pairs / vectors / quote forms, next to unproblematic atoms only
    (no symbol needing bars, no unquote head, shallow): nothing here can fall into another finding class"""
    if depth <= 0 or rng.random() < 0.35:
        if rng.random() < 0.8:
            return gen_number_leaf(rng)
        return rng.choice([("sym", [ord(c) for c in "x"]), ("str", [97, 32, 98]), ("bool", True), ("char", 955)])
    k = rng.random()
    n = rng.choice([1, 2, 2, 3])
    if k < 0.45:
        return ("list", [gen_number_datum(rng, depth - 1) for _ in range(n)])
    if k < 0.6:
        return ("list", [("sym", [ord(c) for c in rng.choice(["quote", "quasiquote"])]), gen_number_datum(rng, depth - 1)])
    if k < 0.78:
        d = gen_number_datum(rng, depth - 1)
        while d[0] == "list":
            d = gen_number_leaf(rng)
        return ("pair", gen_number_datum(rng, depth - 1), d)
    return ("vec", [gen_number_datum(rng, depth - 1) for _ in range(n)])


def tie_numbers(ck, data, tag):
    """(b2) oracle-only tie for the numbers outside the Coq model (doubles, +-inf.0, NaN, complex of every part kind):
    build -> engine write -> engine read; required: equal? (for NaN: a number of the same exactness whose number->string
    is the written text), `write` agrees with `number->string` on every number, and writing the datum read gives the
    same text again"""
    units = ["E:(c12-rtn %s)" % steel_build(d) for d in data]
    impl = run_units(ck, units, prelude=PRELUDE, batch=60)
    kinds = set()
    for i, (d, r) in enumerate(zip(data, impl)):
        ck.cov["evaluations"] += 1
        tags = sorted(set(t for x in walk(d) if x[0] == "num" for t in x[2]))
        case = {"kind": "number-roundtrip", "datum": d, "build": steel_build(d), "tags": tags}
        kinds.add((tuple(tags), tuple(sorted(set(x[0] for x in walk(d))))))
        if "ok" not in r or not r["ok"]:
            case.update(mode="engine", impl=r)
            ck.failing_input("write/read of %s: engine did not answer: %s" % (case["build"][:200], json.dumps(r)[:200]), case, tag=tag)
            continue
        fields = [_harness_unesc(m) for m in _STR.findall(r["ok"][-1])]
        if len(fields) < 4:
            case.update(mode="engine", impl=r)
            ck.failing_input("write/read of %s: unexpected answer %s" % (case["build"][:200], r["ok"][-1][:200]), case, tag=tag)
            continue
        text, eq, same, rewritten, mism = fields[0], fields[1] == "T", fields[2] == "T", fields[3], fields[4:]
        case.update(written=text, rewritten=rewritten, equal=eq, same=same)
        if i % 41 == 0:
            ck.sample({"build": case["build"][:160], "written": text[:120], "equal": eq, "same_kind": same}, cap=10)
        if not same or (not eq and "nan" not in tags):
            case["mode"] = "roundtrip"
            ck.failing_input("the written number does not read back: %s is written %r and read back as %r (equal? %s)" %
                             (case["build"][:160], text[:100], rewritten[:100], eq), case, tag=tag)
        elif mism:
            case.update(mode="formatters", mismatches=mism)
            ck.failing_input("`write` and number->string disagree on %s: %s" % (case["build"][:160], "; ".join(mism)[:200]), case, tag=tag)
        elif rewritten != text:
            case["mode"] = "rewrite"
            ck.failing_input("writing what was read differs from what was written: %s is written %r, read and written again %r" %
                             (case["build"][:160], text[:100], rewritten[:100]), case, tag=tag)
    return kinds


def corpus_numbers():
    try:
        return json.load(open(os.path.join(CORPUS_DIR, "regressions.json"))).get("numbers", [])
    except (OSError, ValueError):
        return []


# ------------------------------------------------------------------------------------------------ running the harness
def run_units(ck, units, prelude="", batch=200, timeout=120):
    """one unit per case on the c12 harness; returns the per-unit result objects (crash/hang are observables)"""
    res = ck.eval_cases([[u] for u in units], prelude=prelude, binary="c12", batch=batch, timeout_per_batch=timeout)
    return [r[0] if r else {"crash": "no-result"} for r in res]


PRELUDE = """(define (c12-write d) (let ([p (open-output-string)]) (write d p) (get-output-string p)))
;;;;
(define (c12-rt d)
  (let* ([text (c12-write d)]
         [back (with-handler (lambda (e) 'c12-read-raised) (read (open-input-string text)))])
    (string-append (if (equal? d back) "T" "F") text)))
;;;;
(define (c12-read1 s)
  (let ([v (with-handler (lambda (e) 'c12-read-raised) (read (open-input-string s)))])
    (if (eof-object? v) 'c12-eof v)))
;;;;
(define (c12-read-all s)
  (let ([p (open-input-string s)])
    (let loop ([n 0] [acc '()])
      (let ([v (with-handler (lambda (e) 'c12-read-raised) (read p))])
        (if (or (eof-object? v) (> n 40))
            (reverse acc)
            (loop (+ n 1) (cons v acc)))))))
;;;;
(define (c12-substr? pat s)
  (let ([n (string-length pat)] [m (string-length s)])
    (let loop ([i 0])
      (cond [(> (+ i n) m) #f]
            [(string=? (substring s i (+ i n)) pat) #t]
            [else (loop (+ i 1))]))))
;;;;
(define (c12-num-same? a b)
  (and (number? b)
       (or (equal? a b)
           (and (c12-substr? "nan" (number->string a))
                (equal? (exact? a) (exact? b))
                (string=? (number->string a) (number->string b))))))
;;;;
(define (c12-same? a b)
  (cond [(number? a) (c12-num-same? a b)]
        [(pair? a) (and (pair? b) (c12-same? (car a) (car b)) (c12-same? (cdr a) (cdr b)))]
        [(vector? a) (and (vector? b) (c12-same? (vector->list a) (vector->list b)))]
        [else (equal? a b)]))
;;;;
(define (c12-numbers d)
  (cond [(number? d) (list d)]
        [(pair? d) (append (c12-numbers (car d)) (c12-numbers (cdr d)))]
        [(vector? d) (c12-numbers (vector->list d))]
        [else '()]))
;;;;
(define (c12-rtn d)
  (let* ([text (c12-write d)]
         [back (with-handler (lambda (e) 'c12-read-raised) (read (open-input-string text)))]
         [bad (filter (lambda (x) (not (string=? (c12-write x) (number->string x)))) (c12-numbers d))])
    (append (list text
                  (if (equal? d back) "T" "F")
                  (if (c12-same? d back) "T" "F")
                  (if (eq? back 'c12-read-raised) "<raised>" (c12-write back)))
            (map (lambda (x) (string-append (c12-write x) " vs " (number->string x))) bad))))
"""


def impl_read_lines(r):
    """harness R: result -> the model's run_read rendering (list of lines)"""
    if "panic" in r:
        return None
    lines = []
    for c, off in r["data"]:
        n = norm_canon(c)
        if n == "<bad>":
            lines.append("converr %d" % off)
        else:
            lines.append("ok %d %s" % (off, n))
    e = r["end"]
    if e == "eof":
        lines.append("eof")
    elif isinstance(e, list):
        lines.append("err %s %d %d" % (e[1], e[2], e[3]))
    else:
        lines.append(str(e))
    return lines


def model_read_lines(txt):
    """model run_read output (offsets relative to each buffer) -> cumulative offsets like the harness"""
    out = []
    base = 0
    for ln in txt.split("\t"):
        p = ln.split(" ", 2)
        if p[0] == "ok":
            base += int(p[1])
            out.append("ok %d %s" % (base, p[2]))
        elif p[0] == "converr":
            base += int(p[1])
            out.append("converr %d" % base)
        elif p[0] == "err":
            q = ln.split(" ")
            out.append("err %s %d %d" % (q[1], int(q[2]) + base, int(q[3]) + base))
        else:
            out.append(ln)
    return out


def impl_lex_lines(r):
    if "panic" in r:
        return None
    out = []
    for k, p, a, b in r["toks"]:
        if k == "char":
            out.append("%d %d char %s" % (a, b, p))
        elif k in ("ident", "keyword", "str"):
            out.append(("%d %d %s %s" % (a, b, k, show_text(p))))
        elif k in ("open", "close", "kw", "bool", "num"):
            out.append("%d %d %s %s" % (a, b, k, p))
        else:
            out.append("%d %d %s" % (a, b, k))
    if r["err"]:
        out.append("%d %d ERR %s" % (r["err"][1], r["err"][2], r["err"][0]))
    return out


# ------------------------------------------------------------------------------------------------ texts (tie a)
CORPUS_DIR = os.path.join(common.ROOT, "corpus", "c12")

SEED_TEXTS = [
    "(define (f x) (if (< x 1) 'a \"s\\n\"))", "(1 2 . 3)", "#(1 #\\a \"x\")", "#u8(1 #xFF 255)", "'(a . b)", "`(a ,b ,@c)",
    "(quote x)", "(quasiquote (unquote (a)))", "|a b|", "|a\\|b|", "#\\space #\\x41 #\\u{3bb} #\\newline", "1/2 -3/4 +5",
    "#x1F #b101 #o17 #d9", "1e5 .5 -.5e-3 1.", "+inf.0 -nan.0 +i 1+2i 1@2", "#t #f #true #false", "#;(a b) c", "#| x #| y |# |# z",
    "; comment\n a", "\"a\\x41;b\\u{3bb}\\t\\\\\"", "\"a\\\n   b\"", "#<<EOF\nline\nEOF\n x", "#!shebang\n(a)", "(a . (b . (c)))",
    "[a {b} (c)]", "#'a #`(b #,c #,@d)", "(let ([x 1]) x)", "(lambda (x . r) r)", "... . ..", "+foo -bar 1+ -", "#:kw #%prim",
    "(define-syntax m (syntax-rules () [(_ a) a]))", "(begin (set! x 1) (return! x))", "a'b c\\'d", "#\\( #\\) #\\; #\\\"",
    "(unquote-splicing (a b))", "'(quote x)", "''a", "`(1 `(2 ,(3 ,x)))", "(a #;b . c)", "(a . #;b c)", "#(a . b)", "#u8(256)",
    "(a b", ")", "(]", "\"abc", "|abc", "#|", "#\\", "#\\xZZ", "\"\\q\"", "\"\\x41\"", "1/0", "##", "#<<E", "'", "(quote", "'(quote x",
    "\"\\a\\b\\t\\n\\r\\0\\|\\\\\\\"\"", "|x\\ty\\x41;|", "(" + "#;" * 3 + "a b c d)", "\u03bb \u3000 a\u00a0b", "(a\u2028b)", "\"\U0001F600\" #\\\U0001F600",
]

PROGRAMS = [
    "(define (fact n) (if (< n 2) 1 (* n (fact (- n 1)))))",
    "(define x 10)", "(define (f . args) args)", "(define ((curried a) b) (+ a b))",
    "(let ([a 1] [b 2]) (+ a b))", "(lambda (x y) (begin (display x) y))", "(if #t 'yes 'no)",
    "(set! x (quote (1 2 3)))", "(begin 1 2 3)", "'(a b . c)", "`(a ,(+ 1 2) ,@(list 3 4))", "#(1 2 3)", "#u8(1 2 3)",
    "(define-syntax swap! (syntax-rules () [(_ a b) (let ([t a]) (set! a b) (set! b t))]))",
    "(f #\\a #\\space 1.5 -2 3/4 \"str\")", "(require \"foo.scm\")", "(return! 5)", "(list 'a 'b '() '(quote c))",
    "(define v (vector 1 2))", "(when (> x 0) (displayln x))", "(cond [(= x 1) 'one] [else 'other])",
]

MUT_CHARS = list("()[]{}\"'`;,|\\#. \n\t0123456789+-/@eEixXbBu:%<>!?*=aZ") + ["\u03bb", "\u00a0", "\u2028", "\U0001F600", "\x00", "\x7f"]


def mutate(rng, s):
    s = list(s)
    for _ in range(rng.choice([1, 1, 1, 2, 2, 3, 5])):
        op = rng.random()
        if not s:
            s = [rng.choice(MUT_CHARS)]
            continue
        i = rng.randrange(len(s) + 1)
        if op < 0.30:
            s.insert(i, rng.choice(MUT_CHARS))
        elif op < 0.55 and s:
            del s[min(i, len(s) - 1)]
        elif op < 0.70 and s:
            s[min(i, len(s) - 1)] = rng.choice(MUT_CHARS)
        elif op < 0.80:
            j = rng.randrange(len(s) + 1)
            a, b = min(i, j), max(i, j)
            s[a:a] = s[a:b][:12]
        elif op < 0.90:
            s = s[:i]
        else:
            s[i:i] = list(rng.choice(["#;", "#|", "|#", "'(", ",@", "#\\", "#u8(", "#(", " . ", "\\x", "#x", "1/", "e5", "quote ",
                                      "unquote ", "quasiquote ", "(quote ", "#<<", "#!", "|", "\\u{", "+inf.0", "define "]))
    return "".join(s)[:90]


def render_written(d):
    """a python rendering of the writer (only used to seed mutations, never as an oracle)"""
    t = d[0]
    if t == "int":
        return str(d[1])
    if t == "rat":
        return "%d/%d" % (d[1], d[2])
    if t == "bool":
        return "#true" if d[1] else "#false"
    if t == "char":
        return "#\\" + chr(d[1])
    if t == "str":
        return '"' + "".join(chr(c) for c in d[1]).replace("\\", "\\\\").replace('"', '\\"') + '"'
    if t == "sym":
        return "".join(chr(c) for c in d[1])
    if t == "list":
        return "(" + " ".join(render_written(x) for x in d[1]) + ")"
    if t == "pair":
        return "(%s . %s)" % (render_written(d[1]), render_written(d[2]))
    if t == "vec":
        return "#(" + " ".join(render_written(x) for x in d[1]) + ")"
    if t == "bytes":
        return "#u8(" + " ".join("#x%02X" % b for b in d[1]) + ")"
    return "1.5"


def gen_texts(ck, n):
    rng = ck.rng
    out = []
    for _ in range(n):
        k = rng.random()
        if k < 0.40:
            base = rng.choice(SEED_TEXTS + PROGRAMS)
            out.append(mutate(rng, base) if rng.random() < 0.8 else base)
        elif k < 0.75:
            d = gen_datum(rng, rng.choice([1, 2, 3]), {"weird_syms": True, "unquote_heads": True})
            w = render_written(d)
            out.append(mutate(rng, w) if rng.random() < 0.7 else w)
        elif k < 0.9:
            out.append("".join(rng.choice(MUT_CHARS) for _ in range(rng.randint(1, 14))))
        else:
            out.append("".join(chr(gen_cp(rng)) for _ in range(rng.randint(1, 10))))
    return [t for t in out if "@doc" not in t]


def load_corpus():
    texts, data = [], []
    if os.path.isdir(CORPUS_DIR):
        for fn in sorted(os.listdir(CORPUS_DIR)):
            p = os.path.join(CORPUS_DIR, fn)
            if fn.endswith(".txt"):
                texts.append(open(p, encoding="utf-8").read())
            elif fn.endswith(".json"):
                j = json.load(open(p))
                texts.extend(j.get("texts", []))
                data.extend(tuple_datum(d) for d in j.get("data", []))
    return texts, data


# ------------------------------------------------------------------------------------------------ the ties
def printable_pred(ck, cps_needed):
    """Rust's `escape_debug` classification for the code points in use, from the implementation's standard library
    (harness op C:), as a Coq predicate.  ASCII is fixed by rule: 0x20..0x7e printable."""
    cps_needed = sorted(set(c for c in cps_needed if c >= 128))
    table = {}
    for i in range(0, len(cps_needed), 400):
        chunk = cps_needed[i:i + 400]
        r = run_units(ck, ["C:" + ",".join(map(str, chunk))])[0]
        for c, v in zip(chunk, r["chars"]):
            table[c] = bool(v and v[0])
    pos = [c for c in cps_needed if table.get(c)]
    coq = "(fun c => ((32 <=? c) && (c <? 127)) || existsb (N.eqb c) [%s])" % "; ".join(map(str, pos))
    return coq, table


def tie_roundtrip(ck, data, tag):
    """(b): build -> engine write -> model write; engine read -> equal? (oracle on the implementation)"""
    cps_used = set()
    for d in data:
        for x in walk(d):
            if x[0] in ("str", "sym"):
                cps_used.update(x[1])
            elif x[0] == "char":
                cps_used.add(x[1])
    pr, _ = printable_pred(ck, cps_used)
    units = ["X:(c12-rt %s)" % steel_build(d) for d in data]
    impl = run_units(ck, units, prelude=PRELUDE)
    exact = [i for i, d in enumerate(data) if not any(x[0] == "flo" for x in walk(d))]
    model_w = ck.coq_eval(HEADER, ["run_write %s (%s)" % (pr, coq_datum(data[i])) for i in exact], shard=150)
    model_rt = ck.coq_eval(HEADER, ["run_roundtrip %s (%s)" % (pr, coq_datum(data[i])) for i in exact], shard=150)
    mw = dict(zip(exact, model_w))
    mr = dict(zip(exact, model_rt))
    kinds = set()
    for i, (d, r) in enumerate(zip(data, impl)):
        ck.cov["evaluations"] += 1
        case = {"kind": "roundtrip", "datum": d, "build": steel_build(d)}
        shape = tuple(sorted(set(x[0] for x in walk(d))))
        kinds.add((shape, min(height(d), 6)))
        if "ok" not in r:
            case["impl"] = r
            ck.failing_input("write/read of %s: engine did not answer: %s" % (case["build"][:200], json.dumps(r)[:200]),
                             case, tag=tag)
            continue
        val = _harness_unesc(r["ok"][-1][1:-1])
        same, text = val[0] == "T", val[1:]
        case["written"] = text
        case["reader_left_dirty"] = bool(r.get("poisoned"))
        if i % 53 == 0:
            ck.sample({"build": case["build"][:160], "written": text[:120], "equal": same})
        if i in mw:
            model_text = unshow(mw[i])
            if model_text != text:
                case["model_written"] = model_text
                if not same or r.get("poisoned"):
                    ck.failing_input("write %s: engine wrote %r (model %r) and reading it back is not equal?" %
                                     (case["build"][:160], text[:120], model_text[:120]), case, tag=tag)
                else:
                    ck.violation("writer correspondence broken: engine wrote %r, model writes %r for %s" %
                                 (text[:160], model_text[:160], case["build"][:160]),
                                 {"case": case, "correspondence": "c12.Model_C12 write vs cycles.rs"}, no_input=True, tag="corr-write")
                continue
            model_same = mr[i] == "ok " + model_show(d)
            if model_same != (same and not r.get("poisoned")):
                case["model_roundtrip"] = mr[i]
                if not same or r.get("poisoned"):
                    # the implementation fails the property although the model predicts success: a failing input
                    ck.failing_input("read (write d)) is not equal? to d for %s (written %r)" % (case["build"][:160], text[:120]),
                                     case, tag=tag)
                else:
                    ck.violation("reader correspondence broken on written text %r: model reads %s" % (text[:160], mr[i][:160]),
                                 {"case": case, "correspondence": "c12.Model_C12 read vs lexer.rs/parser.rs"}, no_input=True, tag="corr-read")
                continue
        if not same or r.get("poisoned"):
            what = "read (write d) is not equal? to d" if not same else "reading the written text leaves unread input in the shared reader"
            ck.failing_input("%s: %s (written %r)" % (what, case["build"][:160], text[:120]), case, tag=tag)
    return kinds


def model_show(d):
    """python mirror of show_datum for the expected read-back value"""
    t = d[0]
    if t == "int":
        return "I%d" % d[1]
    if t == "rat":
        return "R%d/%d" % (d[1], d[2])
    if t == "bool":
        return "#t" if d[1] else "#f"
    if t == "char":
        return "#\\x%x" % d[1]
    if t == "str":
        return '"' + show_text("".join(map(chr, d[1]))) + '"'
    if t == "sym":
        return "'\"" + show_text("".join(map(chr, d[1]))) + '"'
    if t == "list":
        return "(" + " ".join(model_show(x) for x in d[1]) + ")"
    if t == "pair":
        return "(%s . %s)" % (model_show(d[1]), model_show(d[2]))
    if t == "vec":
        return "#(" + " ".join(model_show(x) for x in d[1]) + ")"
    if t == "bytes":
        return "#u8(" + " ".join("#x%02X" % b for b in d[1]) + ")"
    return "?"


def tie_texts(ck, texts, tag):
    """(a): lexer + flat reader on arbitrary texts vs the model; crash / hang / bad span detection; full parser"""
    units = []
    for t in texts:
        units += ["L:" + t, "R:" + t, "P:" + t]
    impl = run_units(ck, units, batch=600)
    mlex = ck.coq_eval(HEADER, ["run_lex %s" % coq_text(t) for t in texts], shard=250)
    mread = ck.coq_eval(HEADER, ["run_read %s" % coq_text(t) for t in texts], shard=250)
    classes = set()
    for i, t in enumerate(texts):
        L, R, P = impl[3 * i], impl[3 * i + 1], impl[3 * i + 2]
        ck.cov["evaluations"] += 3
        for name, r in (("lexer", L), ("read", R), ("parser", P)):
            if "crash" in r or "hang" in r:
                ck.failing_input("%s %s on the %d-byte text %r" % (name, "hangs" if "hang" in r else "crashes the process", len(t.encode()), t[:80]),
                                 {"kind": "reader-hang" if "hang" in r else "reader-crash", "text": t, "stage": name, "impl": r}, tag=tag)
            if "badspan" in r:
                ck.failing_input("%s reports a source location outside the text / off a character boundary: %s for %r" % (name, r["badspan"], t[:80]),
                                 {"kind": "bad-span", "text": t, "stage": name, "spans": r["badspan"]}, tag=tag)
        if "panic" in P:
            ck.failing_input("Parser::new(%r).collect() panics: %s" % (t[:80], P["panic"][:160]),
                             {"kind": "reader-panic", "text": t, "stage": "parser", "panic": P["panic"]}, tag=tag)
        il = impl_lex_lines(L) if "toks" in L else None
        if "panic" in L:
            ck.failing_input("the lexer panics on %r: %s" % (t[:80], L["panic"][:160]),
                             {"kind": "reader-panic", "text": t, "stage": "lexer", "panic": L["panic"]}, tag=tag)
        elif il is not None and mlex[i] != "FUEL":
            ml = [x for x in mlex[i].split("\t") if x]
            if ml != il:
                ck.violation("lexer correspondence broken on %r: model %s, implementation %s" % (t[:80], first_diff(ml, il), ""),
                             {"text": t, "model": ml, "impl": il, "correspondence": "c12.Model_C12 lex vs lexer.rs TokenStream"},
                             no_input=True, tag="corr-lex")
        if mread[i] in ("FUEL", "unmodelled") or mread[i].endswith("unmodelled"):
            classes.add(("unmodelled",))
            continue
        mr = model_read_lines(mread[i])
        if "panic" in R:
            if mr[-1] == "panic":
                # the model predicts the implementation's own failure: a failing input (the property says the reader never fails itself)
                ck.failing_input("`read` panics on the %d-byte text %r: %s" % (len(t.encode()), t[:80], R["panic"][:160]),
                                 {"kind": "reader-panic", "text": t, "stage": "read", "panic": R["panic"]}, tag=tag)
            else:
                ck.failing_input("`read` panics on %r: %s (not predicted by the model)" % (t[:80], R["panic"][:160]),
                                 {"kind": "reader-panic", "text": t, "stage": "read", "panic": R["panic"], "model": mr}, tag=tag)
            classes.add(("panic",))
            continue
        if "data" not in R:
            continue
        ir = impl_read_lines(R)
        classes.add(tuple(x.split(" ")[0] + (":" + x.split(" ")[1] if x.startswith("err") else "") for x in ir)[:4] +
                    tuple(sorted(set(k for k, _, _, _ in L.get("toks", []))))[:12])
        if ir != mr:
            ck.violation("reader correspondence broken on %r: %s" % (t[:80], first_diff(mr, ir)),
                         {"text": t, "model": mr, "impl": ir, "correspondence": "c12.Model_C12 read_first vs Parser::new_flat + tryfrom_visitor"},
                         no_input=True, tag="corr-read")
    return classes


HISTORY_TEXTS = ["a b", "(1 2", "\"abc", "|x", ")", "(1 . )", "#\\xZZ", "", "  ", "x", "(a (b", "1 2 3", "'", "`(a ,", "#|", "(c",
                 "\"s\" t", "#(1", "#u8(1", "(quote", "; c", "#;", "#;(a", "(a . b) (", "]", "5"]


def expected_read1(model_line):
    p = model_line.split(" ", 2)
    if p[0] == "ok":
        return p[2]
    if p[0] == "converr":
        return "'\"c12-read-raised\""
    if p[0] in ("eof", "err"):
        return "'\"c12-eof\""
    return None            # panic / unmodelled: no expectation


def tie_histories(ck, n, tag):
    """(d) `read` must not depend on what earlier reads (on other ports) left behind: every text of a history is read
    once through a fresh string port on ONE engine; the expected value is the model's reading of that text alone.
    Second family: all the data of one port, read one after the other."""
    rng = ck.rng
    hists = []
    try:
        hists = [list(h) for h in json.load(open(os.path.join(CORPUS_DIR, "regressions.json"))).get("histories", [])]
    except (OSError, ValueError):
        pass
    for _ in range(n):
        h = []
        for _ in range(rng.randint(2, 6)):
            k = rng.random()
            if k < 0.55:
                h.append(rng.choice(HISTORY_TEXTS))
            elif k < 0.8:
                h.append(render_written(gen_datum(rng, 2, {})))
            else:
                h.append(mutate(rng, rng.choice(SEED_TEXTS[:40])))
        hists.append([t for t in h if "@doc" not in t and "\x00" not in t])
    texts = sorted(set(t for h in hists for t in h))
    mread = dict(zip(texts, ck.coq_eval(HEADER, ["run_read %s" % coq_text(t) for t in texts], shard=250)))
    cases = [["E:(c12-read1 %s)" % steel_text([ord(c) for c in t]) for t in h] for h in hists]
    res = ck.eval_cases(cases, prelude=PRELUDE, binary="c12", batch=40, timeout_per_batch=120)
    for h, rs in zip(hists, res):
        ck.cov["evaluations"] += len(h)
        if not rs or len(rs) != len(h):
            ck.failing_input("a history of reads kills / hangs the engine: %r" % (h,), {"kind": "read-history", "history": h, "impl": rs}, tag=tag)
            continue
        for i, (t, r) in enumerate(zip(h, rs)):
            lines = model_read_lines(mread[t])
            exp = expected_read1(lines[0])
            if exp is None or "panic" in r:
                break          # a reader panic is reported by tie (a); the engine of this history is gone
            got = norm_canon(r["ok"][-1]) if "ok" in r and r["ok"] else json.dumps(r)
            if got != exp:
                ck.failing_input("`read` depends on earlier reads from other ports: after reading %r, (read (open-input-string %r)) "
                                 "gives %s instead of %s" % (h[:i], t, got[:80], exp[:80]),
                                 {"kind": "read-history", "history": h, "index": i, "got": got, "expected": exp}, tag=tag)
                break
    # all data of one port
    multi = [t for t in texts if len(mread[t].split("\t")) >= 2][:300] + ["a\u00a0 b", "1 \u3000 2 \u2003(3)", "a b c"]
    # the script-level Reader re-parses the rest of the buffer after skipping whitespace, so a `#!` there is taken
    # for a shebang line (TokenStream::new) and the rest of that line is dropped: not modelled, excluded here
    multi = [t for t in dict.fromkeys(multi) if "#!" not in t]
    mm = dict(zip(multi, ck.coq_eval(HEADER, ["run_read %s" % coq_text(t) for t in multi], shard=250)))
    res = ck.eval_cases([["E:(c12-read-all %s)" % steel_text([ord(c) for c in t])] for t in multi], prelude=PRELUDE,
                        binary="c12", batch=60, timeout_per_batch=120)
    for t, rs in zip(multi, res):
        ck.cov["evaluations"] += 1
        lines = model_read_lines(mm[t])
        if any(l.split(" ")[0] in ("panic", "unmodelled", "FUEL", "STUCK") for l in lines):
            continue
        exp = []
        for l in lines:
            e = expected_read1(l)
            if l.startswith("ok") or l.startswith("converr"):
                exp.append(e)
            else:
                break
        r = rs[0] if rs else {"crash": "no-result"}
        if "ok" not in r or not r["ok"]:
            if "panic" in r:
                continue
            ck.failing_input("reading all data of the port over %r: %s" % (t, json.dumps(r)[:160]),
                             {"kind": "read-port", "text": t, "impl": r}, tag=tag)
            continue
        got = norm_canon(r["ok"][-1])
        want = "(" + " ".join(exp) + ")"
        if got != want:
            ck.failing_input("successive reads from one port over %r give %s, the data of the text are %s" % (t, got[:120], want[:120]),
                             {"kind": "read-port", "text": t, "got": got, "expected": want}, tag=tag)
    return len(hists), len(multi)


def first_diff(a, b):
    for i in range(max(len(a), len(b))):
        x = a[i] if i < len(a) else "<none>"
        y = b[i] if i < len(b) else "<none>"
        if x != y:
            return "entry %d: model %r vs implementation %r" % (i, x[:120], y[:120])
    return "equal"


def needs_escape(t):
    """does the program text contain a literal the AST printer prints unescaped?"""
    for m in re.finditer(r'"((?:[^"\\]|\\.)*)"', t, re.S):
        if "\\" in m.group(1) or "\n" in m.group(1):
            return True
    return False


def tie_print_parse(ck, progs, tag):
    res = run_units(ck, ["P:" + p for p in progs], batch=400)
    n_ok = 0
    for p, r in zip(progs, res):
        ck.cov["evaluations"] += 1
        if "ok" not in r:
            continue
        n_ok += 1
        if r["pp"] != "same":
            ck.failing_input("print_parse_ast: %r prints as %r which %s" % (p[:100], r.get("printed", "")[:100], r["pp"]),
                             {"kind": "print-parse", "text": p, "printed": r.get("printed"), "result": r["pp"], "needs_escape": needs_escape(p)}, tag=tag)
    return n_ok


def gen_program(rng, depth=3):
    atoms = ["x", "y", "foo", "1", "-2", "3/4", "1.5", "#t", "#f", "#\\a", "#\\space", "\"s\"", "\"two words\"", "'sym", "'()", "car", "+"]
    if depth <= 0 or rng.random() < 0.3:
        return rng.choice(atoms)
    k = rng.random()
    e = lambda: gen_program(rng, depth - 1)
    v = lambda: rng.choice(["a", "b", "c", "n", "acc"])
    if k < 0.15:
        return "(define %s %s)" % (v(), e())
    if k < 0.27:
        return "(define (%s %s) %s)" % (v(), " ".join(v() for _ in range(rng.randint(0, 3))), e())
    if k < 0.37:
        return "(lambda (%s) %s)" % (" ".join(sorted(set(v() for _ in range(rng.randint(0, 3))))), e())
    if k < 0.47:
        return "(if %s %s %s)" % (e(), e(), e())
    if k < 0.57:
        return "(let ([%s %s]) %s)" % (v(), e(), e())
    if k < 0.64:
        return "(begin %s %s)" % (e(), e())
    if k < 0.70:
        return "(set! %s %s)" % (v(), e())
    if k < 0.78:
        return "'(%s)" % " ".join(rng.choice(["a", "1", "(b c)", "\"s\"", "#\\x", ". d"][:5]) for _ in range(rng.randint(0, 3)))
    if k < 0.84:
        return "`(%s ,%s ,@%s)" % (v(), e(), e())
    if k < 0.88:
        return "#(%s)" % " ".join(rng.choice(["1", "2", "a"]) for _ in range(rng.randint(0, 3)))
    return "(%s %s)" % (rng.choice(["f", "+", "list", "cons", "g"]), " ".join(e() for _ in range(rng.randint(0, 3))))


def run(ck):
    ck.cov["trusted_base"] = [
        "Coq 8.16.1 kernel, coqc; vm_compute for model evaluation",
        "hand-written model coq/c12/Model_C12.v of steel-parser lexer.rs / parser.rs (flat mode), steel-core tryfrom_visitor.rs, "
        "parser/parser.rs TryFrom<SyntaxObject>, rvals/cycles.rs format_with_cycles (external)",
        "Rust std: char::is_whitespace (transcribed), char::escape_debug printable tables (sampled through the harness, a parameter "
        "of every theorem), u32/isize::from_str_radix, f64::from_str acceptance grammar (transcribed), num-bigint parsing/printing",
        "correspondence harness harness/src/bin/c12.rs (+ canon in harness/src/lib.rs), renderers in checks/c12.py",
        "oracle for (b): `equal?` of the implementation between the constructed datum and (read (open-input-string (write d)))",
    ]
    ck.assumptions = [
        "floating point, complex and polar literals: recognised by the model (acceptance grammar) but without value; "
        "inexact and complex numbers are OUTSIDE the Coq model: tie (b2) checks them on the implementation only "
        "(build -> write -> read -> equal?; NaN: same kind + number->string = written text; write vs number->string; "
        "write(read(write d)) = write d) over doubles incl. +-0.0, +-inf.0, NaN and complex numbers with every "
        "{integer, rational, double, inf, nan} x sign combination of real and imaginary part, nested in lists/pairs/vectors/quote forms",
        "`;;@doc` comments and hash maps / structs / cyclic or shared mutable data are outside the model",
        "the expression parser beyond data (lowering of define/lambda/let/if..) is covered differentially only (no panic, spans, print_parse_ast)",
    ]
    proved = ck.proof_stage(["c12"], ["c12/Properties_C12"], "c12/Pins_C12.v")
    ck.harness_build(["c12"])
    quick = ck.tier == "quick"

    corpus_texts, corpus_data = load_corpus()
    # ---- (a) texts
    texts = list(dict.fromkeys(corpus_texts + SEED_TEXTS + PROGRAMS + gen_texts(ck, 1500 if quick else 30000)))
    classes = tie_texts(ck, texts, "text")
    # ---- (b) data
    rng = ck.rng
    data = list(corpus_data)
    for _ in range(700 if quick else 12000):
        data.append(gen_datum(rng, rng.choice([0, 1, 2, 3, 4]), {"floats": True, "weird_syms": rng.random() < 0.25,
                                                                   "unquote_heads": rng.random() < 0.3}))
    # deep nesting around the writer's limit
    for depth in (100, 126, 127, 128, 129, 200):
        d = ("int", 1)
        for _ in range(depth - 1):
            d = ("list", [d])
        data.append(d)
    kinds = tie_roundtrip(ck, data, "data")
    # ---- (b2) numbers outside the Coq model: doubles, infinities, NaN, complex (oracle on the implementation only)
    numdata = [tuple_datum(d) for d in corpus_numbers()]
    numdata += [("num", e, list(t)) for e, t in DOUBLES] + complex_grid(rng)
    numdata += [gen_number_datum(rng, rng.choice([1, 2, 3])) for _ in range(250 if quick else 5000)]
    kinds |= tie_numbers(ck, numdata, "num")
    ck.cov["inexact_and_complex_data"] = len(numdata)
    # ---- (c) print -> parse
    progs = list(dict.fromkeys(PROGRAMS + [gen_program(rng) for _ in range(600 if quick else 10000)]))
    n_pp = tie_print_parse(ck, progs, "pp")
    # ---- (d) read histories: one engine, many ports
    n_h, n_m = tie_histories(ck, 150 if quick else 3000, "hist")
    ck.cov["read_histories"] = n_h
    ck.cov["ports_read_to_the_end"] = n_m

    ck.cov["distinct_nontrivial"] = len(classes) + len(kinds)
    ck.cov["rule"] = ("(a) distinct (read result classes of the first 4 data, set of token kinds) over texts from corpus + seeds + "
                      "grammar-aware mutations + random code points; (b) distinct (set of datum kinds, nesting height capped at 6) "
                      "over generated data; every text is evaluated by the lexer, the flat reader and the lowering parser")
    ck.cov["texts"] = len(texts)
    ck.cov["data"] = len(data)
    ck.cov["programs_printed_and_reparsed"] = n_pp
    if not proved and not ck.violations:
        ck.unproved()


def replay(ck, path):
    obj = json.load(open(path))
    case = obj.get("case") or obj
    ck.harness_build(["c12"])
    if case.get("kind") == "number-roundtrip":
        d = tuple_datum(case["datum"])
        tie_numbers(ck, [d], "num")
        print("build:", steel_build(d)[:300])
    elif case.get("kind") == "roundtrip":
        d = tuple_datum(case["datum"])
        tie_roundtrip(ck, [d], "data")
        print("build:", steel_build(d)[:300])
    elif "text" in case:
        t = case["text"]
        tie_texts(ck, [t], "text")
        tie_print_parse(ck, [t], "pp")
        print("text:", repr(t))
    else:
        print(json.dumps(obj, indent=1)[:3000])
